    // A-HUFF (DESIGN 9): the pairing of calc_huffman_codes with calculate_huffman_code_tree / decode_symbol that the
    // Verus units U13 / U15 assume: whatever decode_symbol returns, the bits it consumed are exactly the code
    // calc_huffman_codes assigns to that symbol (LSB first), the symbol exists and has a non-zero length.
    struct BitsOfU32 { bits: u32, used: u32 }
    impl ReadBits for BitsOfU32 {
        fn get(&mut self, cbit: u32) -> std::io::Result<u32> {
            let r = if cbit >= 32 { self.bits } else { self.bits & ((1u32 << cbit) - 1) };
            self.bits = if cbit >= 32 { 0 } else { self.bits >> cbit };
            self.used += cbit;
            Ok(r)
        }
    }

    fn check_pair(l: &[u8], maxlen: u32) {
        // (the rejecting path builds a PreflateError with #[track_caller], which Kani does not support: only vectors
        // the validity check accepts are explored; rejected ones return Err before any tree is built)
        kani::assume(is_valid_huffman_code_lengths(l));
        let tree = calculate_huffman_code_tree(l);
        assert!(tree.is_ok());
        if let Ok(tree) = tree {
            let codes = calc_huffman_codes(l).unwrap();
            assert!(codes.len() == l.len());
            let bits: u32 = kani::any();
            let mut rd = BitsOfU32 { bits, used: 0 };
            let r = decode_symbol(&mut rd, &tree);
            // a complete code decodes every bit pattern
            assert!(r.is_ok());
            let s = r.unwrap() as usize;
            assert!(s < l.len());
            assert!(l[s] > 0 && (l[s] as u32) <= maxlen);
            assert!(rd.used == l[s] as u32);
            assert!((codes[s] as u32) < (1u32 << l[s]));
            assert!(bits & ((1u32 << l[s]) - 1) == codes[s] as u32);
            kani::cover!(s == 0);
        }
    }

    /// BOUNDED: the listed complete length vectors (concrete), every 32-bit input pattern (symbolic)
    #[kani::proof]
    #[kani::unwind(18)]
    fn huff_pair_listed() {
        check_pair(&[1, 1], 1);
        check_pair(&[1, 2, 2], 2);
        check_pair(&[2, 2, 2, 2], 2);
        check_pair(&[1, 2, 3, 3], 3);
        check_pair(&[3, 3, 3, 3, 2, 2, 0, 0], 3);
        check_pair(&[0, 3, 0, 3, 1, 0, 2], 3);
        check_pair(&[4, 4, 4, 4, 4, 4, 4, 4, 3, 3, 3, 3], 4);
    }

    /// calc_huffman_codes never fails or panics for lengths <= 15 (what U15 assumes as totality), bounded alphabet of 5
    #[kani::proof]
    #[kani::unwind(17)]
    fn huff_codes_total_small() {
        let l: [u8; 5] = kani::any();
        kani::assume(l[0] <= 15 && l[1] <= 15 && l[2] <= 15 && l[3] <= 15 && l[4] <= 15);
        let c = calc_huffman_codes(&l);
        assert!(c.is_ok());
    }
