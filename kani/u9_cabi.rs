    // U9 (bounded): the two extern "C" wrappers on the REAL unsafe code. Library internals and zstd are replaced by
    // contract stubs (their own behaviour is the subject of C01/C11); std's Cursor<&mut [u8]> and slice code are real.
    use std::io::{Read, Write};

    const CAP: usize = 4;      // largest output buffer explored
    const GUARD: usize = 2;    // guard bytes on both sides of the caller's buffer

    /// Kani cannot model unwinding (a panic is a verification failure): catch_unwind just runs the closure
    fn stub_catch_unwind<F: FnOnce() -> R + std::panic::UnwindSafe, R>(f: F) -> std::thread::Result<R> { Ok(f()) }

    fn stub_expand(_compressed_data: &[u8], _loglevel: u32) -> std::result::Result<Vec<u8>, PreflateError> {
        // Ok path only: the Err path builds a PreflateError (Box + String), irrelevant to the caller's buffer
        Ok(Vec::new())
    }

    /// zstd contract (ASSUMED): writes only dest[..n], n <= dest.len()   (Ok path only, see above)
    fn stub_compress_to_buffer(_source: &[u8], destination: &mut [u8], _level: i32) -> std::io::Result<usize> {
        let n: usize = kani::any();
        kani::assume(n <= destination.len());
        let mut i = 0;
        while i < n { destination[i] = kani::any(); i += 1; }
        Ok(n)
    }

    fn stub_decompress(_data: &[u8], _capacity: usize) -> std::io::Result<Vec<u8>> {
        Ok(Vec::new())
    }

    /// reconstruction contract: bounded sequence of write_all calls on the caller's sink (a failing write_all is
    /// swallowed here: its translation into PreflateError is string formatting, far too expensive for CBMC)
    fn stub_recreate<R: Read, W: Write>(_source: &mut R, destination: &mut W) -> std::result::Result<(), PreflateError> {
        let mut k = 0;
        while k < 2 {
            if kani::any() { break; }
            let n: usize = kani::any();
            kani::assume(n <= 3);
            let buf = [0x55u8; 3];
            let _ = destination.write_all(&buf[..n]);
            k += 1;
        }
        Ok(())
    }

    fn guards_intact(area: &[u8; CAP + 2 * GUARD], cap: usize) -> bool {
        let mut ok = true;
        let mut i = 0;
        while i < GUARD { ok &= area[i] == 0xAA; i += 1; }
        let mut j = GUARD + cap;
        while j < CAP + 2 * GUARD { ok &= area[j] == 0xAA; j += 1; }
        ok
    }

    #[kani::proof]
    #[kani::unwind(8)]
    #[kani::stub(catch_unwind, stub_catch_unwind)]
    #[kani::stub(crate::preflate_container::expand_zlib_chunks, stub_expand)]
    #[kani::stub(zstd::bulk::compress_to_buffer, stub_compress_to_buffer)]
    fn c12_compress_wrapper() {
        let input = [0u8; 4];
        let mut area = [0xAAu8; CAP + 2 * GUARD];
        let cap: usize = kani::any();
        kani::assume(cap <= CAP);
        let mut result_size: u64 = kani::any();
        let before = result_size;
        let r = unsafe {
            WrapperCompressZip(input.as_ptr(), 4, area.as_mut_ptr().add(GUARD), cap as u64, &mut result_size as *mut u64)
        };
        assert!(guards_intact(&area, cap));
        assert!(r == 0 || r == -1 || r == -2);
        if r == 0 { assert!(result_size <= cap as u64); }
        kani::cover!(r == 0 && result_size > 0);
    }

    #[kani::proof]
    #[kani::unwind(8)]
    #[kani::stub(catch_unwind, stub_catch_unwind)]
    #[kani::stub(zstd::bulk::decompress, stub_decompress)]
    #[kani::stub(crate::preflate_container::recreated_zlib_chunks, stub_recreate)]
    fn c12_decompress_wrapper() {
        let input = [0u8; 4];
        let mut area = [0xAAu8; CAP + 2 * GUARD];
        let cap: usize = kani::any();
        kani::assume(cap <= CAP);
        let mut result_size: u64 = kani::any();
        let r = unsafe {
            WrapperDecompressZip(input.as_ptr(), 4, area.as_mut_ptr().add(GUARD), cap as u64, &mut result_size as *mut u64)
        };
        assert!(guards_intact(&area, cap));
        assert!(r == 0 || r == -1 || r == -2);
        if r == 0 { assert!(result_size <= cap as u64); }
        kani::cover!(r == 0 && result_size > 0);
    }
