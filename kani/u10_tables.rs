    // U10 (complete): length/distance alphabets of the real tables and quantize functions against RFC 1951 3.2.5,
    // written from the RFC (recurrences), not from the tables.
    fn rfc_len_extra(c: usize) -> u32 { if c < 8 || c == 28 { 0 } else { ((c - 4) / 4) as u32 } }
    fn rfc_dist_extra(d: usize) -> u32 { if d < 4 { 0 } else { ((d - 2) / 2) as u32 } }

    #[kani::proof]
    #[kani::unwind(32)]
    fn tables_match_rfc() {
        // length codes 257..285: base (minus MIN_MATCH) by recurrence, code 285 = 258 with 0 extra bits
        assert!(LENGTH_BASE_TABLE[0] == 0);
        let mut c = 0;
        while c < 28 {
            assert!(LENGTH_EXTRA_TABLE[c] as u32 == rfc_len_extra(c));
            if c < 27 {
                assert!(LENGTH_BASE_TABLE[c + 1] as u32 == LENGTH_BASE_TABLE[c] as u32 + (1u32 << rfc_len_extra(c)));
            }
            c += 1;
        }
        assert!(LENGTH_BASE_TABLE[28] as u32 + MIN_MATCH == 258 && LENGTH_EXTRA_TABLE[28] == 0);
        // code 284 reaches 257 with canonical extra bits and 258 only with the non-canonical value 31
        assert!(LENGTH_BASE_TABLE[27] as u32 + MIN_MATCH + 31 == 258 && LENGTH_EXTRA_TABLE[27] == 5);
        // distance codes 0..29 (base minus 1)
        assert!(DIST_BASE_TABLE[0] == 0);
        let mut d = 0;
        while d < 30 {
            assert!(DIST_EXTRA_TABLE[d] as u32 == rfc_dist_extra(d));
            if d < 29 {
                assert!(DIST_BASE_TABLE[d + 1] as u32 == DIST_BASE_TABLE[d] as u32 + (1u32 << rfc_dist_extra(d)));
            }
            d += 1;
        }
        assert!(DIST_BASE_TABLE[29] as u32 + 1 + (1u32 << 13) - 1 == 32768);
        // HCLEN order of RFC 1951 3.2.7
        let rfc_order: [usize; 19] = [16, 17, 18, 0, 8, 7, 9, 6, 10, 5, 11, 4, 12, 3, 13, 2, 14, 1, 15];
        let mut i = 0;
        while i < 19 { assert!(TREE_CODE_ORDER_TABLE[i] == rfc_order[i]); i += 1; }
        assert!(LITERAL_COUNT == 256 && NONLEN_CODE_COUNT == 257 && LEN_CODE_COUNT == 29 && DIST_CODE_COUNT == 30
            && LITLEN_CODE_COUNT == 286 && CODETREE_CODE_COUNT == 19 && MIN_MATCH == 3 && MAX_MATCH == 258);
    }

    /// every length 3..=258: the code chosen by the writer, with its extra bits, denotes exactly that length
    #[kani::proof]
    fn quantize_length_all() {
        let len: u32 = kani::any();
        kani::assume(len >= 3 && len <= 258);
        let q = quantize_length(len);
        assert!(q < LEN_CODE_COUNT);
        let base = LENGTH_BASE_TABLE[q] as u32 + MIN_MATCH;
        let extra = LENGTH_EXTRA_TABLE[q] as u32;
        assert!(base <= len);
        assert!(len - base < (1u32 << extra));
        // canonical choice: 258 is code 285, never 284
        assert!((len == 258) == (q == 28));
        kani::cover!(len == 258);
        kani::cover!(len == 3);
    }

    /// every distance 1..=32768
    #[kani::proof]
    fn quantize_distance_all() {
        let dist: u32 = kani::any();
        kani::assume(dist >= 1 && dist <= 32768);
        let q = quantize_distance(dist);
        assert!(q < DIST_CODE_COUNT);
        let base = DIST_BASE_TABLE[q] as u32 + 1;
        let extra = DIST_EXTRA_TABLE[q] as u32;
        assert!(base <= dist);
        assert!(dist - base < (1u32 << extra));
        kani::cover!(dist == 32768);
        kani::cover!(dist == 1);
    }
    /// reader direction, every length code 0..=28 with every value of its extra bits: the decoded length is 3..=258 and
    /// the writer's quantize_length maps it back to the same code -- except the one non-canonical form (code 284 with
    /// all five extra bits set), which denotes 258 and is what the token flag irregular258 records
    #[kani::proof]
    fn dequantize_length_all() {
        let q: usize = kani::any();
        let e: u32 = kani::any();
        kani::assume(q < LEN_CODE_COUNT);
        kani::assume(e < (1u32 << LENGTH_EXTRA_TABLE[q]));
        assert!(LENGTH_EXTRA_TABLE[q] <= 5);
        let len = MIN_MATCH + LENGTH_BASE_TABLE[q] as u32 + e;
        assert!(len >= 3 && len <= 258);
        if q == 27 && e == 31 { assert!(len == 258); } else { assert!(quantize_length(len) == q); assert!((len == 258) == (q == 28)); }
        kani::cover!(q == 27 && e == 31);
        kani::cover!(q == 28);
    }

    /// reader direction, every distance code 0..=29 with every value of its extra bits
    #[kani::proof]
    fn dequantize_distance_all() {
        let q: usize = kani::any();
        let e: u32 = kani::any();
        kani::assume(q < DIST_CODE_COUNT);
        kani::assume(e < (1u32 << DIST_EXTRA_TABLE[q]));
        assert!(DIST_EXTRA_TABLE[q] <= 13);
        let dist = 1 + DIST_BASE_TABLE[q] as u32 + e;
        assert!(dist >= 1 && dist <= 32768);
        assert!(quantize_distance(dist) == q);
        kani::cover!(q == 29 && e == 8191);
    }

