    // U10 (complete): the fixed Huffman code lengths of RFC 1951 3.2.6 as the reader and the writer build them
    #[kani::proof]
    #[kani::unwind(290)]
    fn fixed_lengths_match_rfc() {
        let (lit, dist) = HuffmanOriginalEncoding::get_fixed_distance_lengths();
        assert!(lit.len() == 288 && dist.len() == 32);
        let i: usize = kani::any();
        kani::assume(i < 288);
        let want: u8 = if i <= 143 { 8 } else if i <= 255 { 9 } else if i <= 279 { 7 } else { 8 };
        assert!(lit[i] == want);
        let j: usize = kani::any();
        kani::assume(j < 32);
        assert!(dist[j] == 5);
    }
