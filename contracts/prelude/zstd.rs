// Trusted contract of zstd::bulk (DESIGN 3.3). ASSUMED: zstd_decode is "what a zstd decoder makes of these bytes";
// compress produces a frame that decodes to its input; decompress honours the capacity bound and rejects
// anything that is not a frame. `compress_to_buffer` writes only inside the destination slice.
pub uninterp spec fn zstd_decode(s: Seq<u8>) -> Option<Seq<u8>>;

pub mod zstd {
    pub mod bulk {
        use super::super::*;
        #[verifier::external_body]
        pub fn compress(data: &[u8], level: i32) -> (r: std::io::Result<Vec<u8>>)
            ensures r is Ok ==> zstd_decode(r->Ok_0@) == Some(data@),
        { unimplemented!() }

        #[verifier::external_body]
        pub fn decompress(data: &[u8], capacity: usize) -> (r: std::io::Result<Vec<u8>>)
            ensures
                zstd_decode(data@) is None ==> r is Err,
                zstd_decode(data@) is Some && zstd_decode(data@)->Some_0.len() > capacity ==> r is Err,
                zstd_decode(data@) is Some && zstd_decode(data@)->Some_0.len() <= capacity ==> r is Ok && r->Ok_0@ == zstd_decode(data@)->Some_0,
        { unimplemented!() }
    }
}

/// R7 shim: body IS the replaced expression `Cursor::new(v)`; an in-memory cursor is a reliable source of v's bytes
#[verifier::external_body]
pub fn shim_cursor_vec(v: Vec<u8>) -> (r: std::io::Cursor<Vec<u8>>)
    ensures r.rest() == v@, r.reliable(),
{ std::io::Cursor::new(v) }
