// Trusted one-line contracts for std APIs vstd has no specification for (DESIGN 3.2 R7). ASSUMED.
use vstd::std_specs::cmp::OrdSpec;
#[verifier::allow(undeclared_external_trait)]
pub assume_specification<T: std::cmp::Ord + std::marker::Destruct>[std::cmp::min](a: T, b: T) -> (r: T)
    ensures T::obeys_cmp_spec() ==> r == (if a.cmp_spec(&b) == std::cmp::Ordering::Greater { b } else { a });

#[verifier::allow(undeclared_external_trait)]
pub assume_specification<T: std::cmp::Ord + std::marker::Destruct>[std::cmp::max](a: T, b: T) -> (r: T)
    ensures T::obeys_cmp_spec() ==> r == (if a.cmp_spec(&b) == std::cmp::Ordering::Greater { a } else { b });

/// big-endian 32-bit layout (arithmetical definition)
pub open spec fn be32(x: u32) -> Seq<u8> {
    seq![(x / 0x1000000) as u8, ((x / 0x10000) % 256) as u8, ((x / 0x100) % 256) as u8, (x % 256) as u8]
}
pub open spec fn be32_val(b: Seq<u8>) -> u32 {
    (b[0] as nat * 0x1000000 + b[1] as nat * 0x10000 + b[2] as nat * 0x100 + b[3] as nat) as u32
}
pub proof fn lemma_be32_inverse(x: u32)
    ensures be32_val(be32(x)) == x, be32(x).len() == 4,
{
    let a = x / 0x1000000; let b = (x / 0x10000) % 256; let c = (x / 0x100) % 256; let d = x % 256;
    assert(x == a * 0x1000000 + b * 0x10000 + c * 0x100 + d) by (bit_vector)
        requires a == x / 0x1000000, b == (x / 0x10000) % 256, c == (x / 0x100) % 256, d == x % 256;
    assert(a < 256) by (bit_vector) requires a == x / 0x1000000;
}
pub open spec fn le16_val(b: Seq<u8>) -> u16 { (b[0] as nat + b[1] as nat * 0x100) as u16 }
pub open spec fn le32_val(b: Seq<u8>) -> u32 { (b[0] as nat + b[1] as nat * 0x100 + b[2] as nat * 0x10000 + b[3] as nat * 0x1000000) as u32 }

/// R7 shim: body IS the replaced expression `x.to_be_bytes()`
#[verifier::external_body]
pub fn shim_to_be_bytes(x: u32) -> (r: [u8; 4])
    ensures r@ == be32(x),
{ x.to_be_bytes() }

/// R7 shim: body IS the replaced expression `u32::from_be_bytes(b)`
#[verifier::external_body]
pub fn shim_from_be_bytes(b: [u8; 4]) -> (r: u32)
    ensures r == be32_val(b@),
{ u32::from_be_bytes(b) }

pub open spec fn sum_u32(s: Seq<u32>) -> nat
    decreases s.len()
{
    if s.len() == 0 { 0 } else { s[0] as nat + sum_u32(s.skip(1)) }
}

/// R7 shim: body IS the replaced expression `v.iter().sum::<u32>()`; overflow is an error (debug semantics)
#[verifier::external_body]
pub fn shim_sum_u32(v: &Vec<u32>) -> (r: u32)
    requires sum_u32(v@) <= 0xFFFF_FFFF,
    ensures r as nat == sum_u32(v@),
{ v.iter().sum::<u32>() }

/// std: Vec<u8> as io::Write appends and never fails
pub axiom fn axiom_vec_written(v: Vec<u8>)
    ensures v.written() == v@, v.infallible();

pub proof fn lemma_be32_inverse2(b: Seq<u8>)
    requires b.len() == 4,
    ensures be32(be32_val(b)) == b,
{
    use vstd::arithmetic::div_mod::lemma_fundamental_div_mod_converse;
    let x = be32_val(b);
    let (b0, b1, b2, b3) = (b[0] as int, b[1] as int, b[2] as int, b[3] as int);
    let n: int = b0 * 0x1000000 + b1 * 0x10000 + b2 * 0x100 + b3;
    assert(0 <= n <= 0xFFFF_FFFF);
    assert(x as int == n);
    lemma_fundamental_div_mod_converse(n, 0x1000000, b0, b1 * 0x10000 + b2 * 0x100 + b3);
    lemma_fundamental_div_mod_converse(n, 0x10000, b0 * 256 + b1, b2 * 0x100 + b3);
    lemma_fundamental_div_mod_converse(b0 * 256 + b1, 256, b0, b1);
    lemma_fundamental_div_mod_converse(n, 0x100, b0 * 0x10000 + b1 * 256 + b2, b3);
    lemma_fundamental_div_mod_converse(b0 * 0x10000 + b1 * 256 + b2, 256, b0 * 256 + b1, b2);
    lemma_fundamental_div_mod_converse(n, 256, b0 * 0x10000 + b1 * 256 + b2, b3);
    assert(be32(x) =~= b);
}

/// R7 shim: stands for `u32::from_be_bytes(v[v.len() - 4..].try_into().unwrap())`; the `len - 4` stays an obligation
#[verifier::external_body]
pub fn shim_be32_tail(v: &Vec<u8>) -> (r: u32)
    requires v@.len() >= 4,
    ensures r == be32_val(v@.subrange(v@.len() - 4, v@.len() as int)),
{ unimplemented!() }

/// R7 shim: stands for `v.drain(0..2);`
#[verifier::external_body]
pub fn shim_drain_front2(v: &mut Vec<u8>)
    requires old(v)@.len() >= 2,
    ensures final(v)@ == old(v)@.subrange(2, old(v)@.len() as int),
{ unimplemented!() }

/// R7 shim: stands for `v.drain(from..);`
#[verifier::external_body]
pub fn shim_drain_from(v: &mut Vec<u8>, from: usize)
    requires from <= old(v)@.len(),
    ensures final(v)@ == old(v)@.subrange(0, from as int),
{ unimplemented!() }

/// R7 shim: stands for `a.to_vec()` on a 2-byte array
#[verifier::external_body]
pub fn shim_to_vec2(a: &[u8; 2]) -> (r: Vec<u8>)
    ensures r@ == a@,
{ unimplemented!() }

/// R7 shim: stands for `v.extend(s)` with a byte slice / byte iterator
#[verifier::external_body]
pub fn shim_extend(v: &mut Vec<u8>, s: &[u8])
    ensures final(v)@ == old(v)@ + s@,
{ unimplemented!() }
