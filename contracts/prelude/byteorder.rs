// Trusted model of byteorder::ReadBytesExt (DESIGN 3.3): read_uN = read_exact of N bytes, little endian. ASSUMED.
/// R7 shim: body IS the replaced expression `source.read_u8()`
#[verifier::external_body]
pub fn shim_read_u8<R: std::io::Read>(source: &mut R) -> (r: std::io::Result<u8>)
    ensures
        (*old(source)).reliable() ==> (*final(source)).reliable() && (r is Ok <==> (*old(source)).rest().len() >= 1),
        r is Ok ==> (*old(source)).rest().len() >= 1 && r->Ok_0 == (*old(source)).rest()[0]
            && (*final(source)).rest() == (*old(source)).rest().skip(1),
{ unimplemented!() /* stands for: source.read_u8() */ }
