// `use crate::preflate_error::Result;` of the source file
pub type Result<T> = std::result::Result<T, PreflateError>;
