// Trusted model of crc32fast::Hasher (DESIGN 3.3): finalize() is a function (crc32_spec) of the bytes fed. ASSUMED.
pub mod crc32fast {
    use super::*;
    #[verifier::external_body]
    pub struct Hasher { _p: () }
    impl Hasher {
        pub uninterp spec fn fed(&self) -> Seq<u8>;
        #[verifier::external_body]
        pub fn new() -> (r: Hasher) ensures r.fed() == Seq::<u8>::empty() { unimplemented!() }
        #[verifier::external_body]
        pub fn update(&mut self, buf: &[u8]) ensures final(self).fed() == old(self).fed() + buf@ { unimplemented!() }
        #[verifier::external_body]
        pub fn finalize(self) -> (r: u32) ensures r == crc32_spec(self.fed()) { unimplemented!() }
    }
}
