// Trusted model of std::io::Cursor over a byte slice and of byteorder's little-endian readers (DESIGN 3.3). ASSUMED.
// A cursor created over `orig` has rest() = the unread bytes; position = |orig| - |rest| (+ overshoot after a seek
// beyond the end: std's Cursor::seek may move past the end without error).
#[verifier::external_type_specification]
#[verifier::external_body]
#[verifier::reject_recursive_types(T)]
pub struct ExCursor<T>(std::io::Cursor<T>);

pub uninterp spec fn overshoot<T>(c: &std::io::Cursor<T>) -> nat;

/// R7 shim: stands for `Cursor::new(s)` over a byte slice
#[verifier::external_body]
pub fn shim_cursor_slice<'a>(s: &'a [u8]) -> (r: std::io::Cursor<&'a [u8]>)
    ensures r.rest() == s@, r.reliable(), overshoot(&r) == 0,
{ unimplemented!() }

/// R7 shim: stands for `cursor.position()` of a cursor that has only been read from (no seek); `orig` is the slice
/// the cursor was created over
#[verifier::external_body]
pub fn shim_cursor_position<'a>(c: &std::io::Cursor<&'a [u8]>, Ghost(orig): Ghost<Seq<u8>>) -> (r: u64)
    ensures c.rest().len() <= orig.len() ==> r as nat == orig.len() - c.rest().len(),
{ unimplemented!() }

/// R7 shim: stands for `cursor.stream_position()`
#[verifier::external_body]
pub fn shim_stream_position<'a>(c: &mut std::io::Cursor<&'a [u8]>, Ghost(orig): Ghost<Seq<u8>>) -> (r: std::io::Result<u64>)
    ensures
        *final(c) == *old(c),
        r is Ok,
        (*old(c)).rest().len() <= orig.len() ==> r->Ok_0 as nat == orig.len() - (*old(c)).rest().len() + overshoot(&*old(c)),
{ unimplemented!() }

/// R7 shim: stands for the FIRST `cursor.seek(SeekFrom::Current(n))`, n >= 0, on a cursor that has only been read from
/// (reads never move a Cursor past its end, so it has no prior overshoot): std's Cursor may seek past the end
#[verifier::external_body]
pub fn shim_seek_current<'a>(c: &mut std::io::Cursor<&'a [u8]>, n: i64) -> (r: std::io::Result<u64>)
    requires n >= 0,
    ensures
        r is Ok,
        (*final(c)).reliable() == (*old(c)).reliable(),
        n <= (*old(c)).rest().len() ==> (*final(c)).rest() == (*old(c)).rest().skip(n as int) && overshoot(&*final(c)) == 0,
        n > (*old(c)).rest().len() ==> (*final(c)).rest().len() == 0 && overshoot(&*final(c)) == n - (*old(c)).rest().len(),
{ unimplemented!() }

/// R7 shims: byteorder::ReadBytesExt::read_u16/read_u32::<LittleEndian> = read_exact of 2/4 bytes, little endian
#[verifier::external_body]
pub fn shim_read_u16_le<R: std::io::Read>(source: &mut R) -> (r: std::io::Result<u16>)
    ensures
        (*old(source)).reliable() ==> (*final(source)).reliable() && (r is Ok <==> (*old(source)).rest().len() >= 2),
        r is Ok ==> (*old(source)).rest().len() >= 2 && r->Ok_0 == le16_val((*old(source)).rest().subrange(0, 2))
            && (*final(source)).rest() == (*old(source)).rest().skip(2),
{ unimplemented!() }

#[verifier::external_body]
pub fn shim_read_u32_le<R: std::io::Read>(source: &mut R) -> (r: std::io::Result<u32>)
    ensures
        (*old(source)).reliable() ==> (*final(source)).reliable() && (r is Ok <==> (*old(source)).rest().len() >= 4),
        r is Ok ==> (*old(source)).rest().len() >= 4 && r->Ok_0 == le32_val((*old(source)).rest().subrange(0, 4))
            && (*final(source)).rest() == (*old(source)).rest().skip(4),
{ unimplemented!() }

/// R7 shim: stands for `u16::from_le_bytes(b)`
#[verifier::external_body]
pub fn shim_u16_from_le(b: [u8; 2]) -> (r: u16)
    ensures r == le16_val(b@),
{ u16::from_le_bytes(b) }
