// Trusted model of std::io::{Read, Write} (DESIGN 3.3). ASSUMED, not verified.
// ASSUMED: 64-bit target (usize is 8 bytes).
global size_of usize == 8;
//
// Write: the sink has a ghost log `written()`. write_all either appends the whole buffer (Ok) or some
// prefix of it (Err) -- that is the std contract of write_all, and it makes the log independent of how
// the sink fragments partial writes.
// Read: the source has ghost remaining content `rest()`. read_exact(buf) either delivers exactly the
// next |buf| bytes (Ok) or fails (Err: too few bytes left, or the source chose to fail); it is
// independent of how the source fragments reads. read(buf) delivers 0..=|buf| of the next bytes;
// Ok(0) only at end of data (or for an empty buffer).
/// w1 is w0 extended by some prefix of `full`
#[verifier::opaque]
pub open spec fn wrote_prefix(w0: Seq<u8>, w1: Seq<u8>, full: Seq<u8>) -> bool {
    exists|k: int| #![trigger full.subrange(0, k)] 0 <= k <= full.len() && w1 == w0 + full.subrange(0, k)
}

pub open spec fn starts_with(s: Seq<u8>, p: Seq<u8>) -> bool {
    p.len() <= s.len() && s.subrange(0, p.len() as int) == p
}

/// (verified, not assumed) a partial write of the middle piece is a partial write of the whole
pub proof fn lemma_prefix_embed(w0: Seq<u8>, done: Seq<u8>, mid: Seq<u8>, tail: Seq<u8>, w1: Seq<u8>)
    requires wrote_prefix(w0 + done, w1, mid),
    ensures wrote_prefix(w0, w1, done + mid + tail),
{
    reveal(wrote_prefix);
    let k = choose|k: int| #![trigger mid.subrange(0, k)] 0 <= k <= mid.len() && w1 == (w0 + done) + mid.subrange(0, k);
    let full = done + mid + tail;
    assert(full.subrange(0, done.len() + k) =~= done + mid.subrange(0, k));
    assert(w0 + full.subrange(0, done.len() + k) =~= (w0 + done) + mid.subrange(0, k));
}

pub proof fn lemma_prefix_full(w0: Seq<u8>, full: Seq<u8>)
    ensures wrote_prefix(w0, w0 + full, full), wrote_prefix(w0, w0, full),
{
    reveal(wrote_prefix);
    assert(full.subrange(0, full.len() as int) =~= full);
    assert(w0 + full.subrange(0, 0) =~= w0);
}

/// the sink currently holds w0 + full[..d] and the next piece to be written is full[d..d+|piece|]
#[verifier::opaque]
pub open spec fn piece_at(w0: Seq<u8>, full: Seq<u8>, wb: Seq<u8>, piece: Seq<u8>) -> bool {
    let d = wb.len() - w0.len();
    0 <= d && d + piece.len() <= full.len() && wb == w0 + full.subrange(0, d) && full.subrange(d, d + piece.len()) == piece
}

/// (verified) C13 glue: a partial write of the piece at its place is a partial write of the whole
pub broadcast proof fn lemma_prefix_piece(w0: Seq<u8>, full: Seq<u8>, wb: Seq<u8>, piece: Seq<u8>, w1: Seq<u8>)
    requires #[trigger] piece_at(w0, full, wb, piece), #[trigger] wrote_prefix(wb, w1, piece),
    ensures wrote_prefix(w0, w1, full),
{
    reveal(wrote_prefix); reveal(piece_at);
    let d = wb.len() - w0.len();
    let k = choose|k: int| #![trigger piece.subrange(0, k)] 0 <= k <= piece.len() && w1 == wb + piece.subrange(0, k);
    assert(full.subrange(0, d + k) =~= full.subrange(0, d) + piece.subrange(0, k));
    assert(w0 + full.subrange(0, d + k) =~= wb + piece.subrange(0, k));
}

pub proof fn lemma_prefix_at(w0: Seq<u8>, full: Seq<u8>, d: int)
    requires 0 <= d <= full.len(),
    ensures wrote_prefix(w0, w0 + full.subrange(0, d), full),
{ reveal(wrote_prefix); }

pub proof fn lemma_skip_skip(s: Seq<u8>, a: int, b: int)
    requires 0 <= a, 0 <= b, a + b <= s.len(),
    ensures s.skip(a).skip(b) == s.skip(a + b),
{
    assert(s.skip(a).skip(b) =~= s.skip(a + b));
}

#[verifier::external_type_specification]
#[verifier::external_body]
pub struct ExIoError(std::io::Error);

#[verifier::external_trait_specification]
#[verifier::external_trait_extension(WriteSpec via WriteSpecImpl)]
pub trait ExWrite {
    type ExternalTraitSpecificationFor: std::io::Write;

    spec fn written(&self) -> Seq<u8>;

    /// a sink that cannot fail (Vec<u8>); arbitrary sinks leave this false
    spec fn infallible(&self) -> bool;

    fn write_all(&mut self, buf: &[u8]) -> (r: std::io::Result<()>)
        ensures
            old(self).infallible() ==> r is Ok && final(self).infallible(),
            r is Ok ==> final(self).written() == old(self).written() + buf@,
            r is Err ==> wrote_prefix(old(self).written(), final(self).written(), buf@),
    ;
}

#[verifier::external_trait_specification]
#[verifier::external_trait_extension(ReadSpec via ReadSpecImpl)]
pub trait ExRead {
    type ExternalTraitSpecificationFor: std::io::Read;

    spec fn rest(&self) -> Seq<u8>;

    /// a source that never fails while bytes remain (in-memory Cursor); arbitrary sources leave this false
    spec fn reliable(&self) -> bool;

    fn read_exact(&mut self, buf: &mut [u8]) -> (r: std::io::Result<()>)
        ensures
            final(buf)@.len() == old(buf)@.len(),
            old(self).reliable() ==> final(self).reliable() && (r is Ok <==> old(self).rest().len() >= old(buf)@.len()),
            r is Ok ==> old(self).rest().len() >= old(buf)@.len()
                && final(buf)@ == old(self).rest().subrange(0, old(buf)@.len() as int)
                && final(self).rest() == old(self).rest().subrange(old(buf)@.len() as int, old(self).rest().len() as int),
    ;

    fn read(&mut self, buf: &mut [u8]) -> (r: std::io::Result<usize>)
        ensures
            final(buf)@.len() == old(buf)@.len(),
            old(self).reliable() ==> final(self).reliable() && r is Ok,
            r is Ok ==> r->Ok_0 <= old(buf)@.len() && r->Ok_0 <= old(self).rest().len()
                && final(buf)@.subrange(0, r->Ok_0 as int) == old(self).rest().subrange(0, r->Ok_0 as int)
                && final(self).rest() == old(self).rest().subrange(r->Ok_0 as int, old(self).rest().len() as int)
                && (r->Ok_0 == 0 ==> old(buf)@.len() == 0 || old(self).rest().len() == 0),
    ;
}
