// Trusted model of preflate_error.rs (DESIGN 3.2 R2): error construction is total, message content is not
// part of any property. ASSUMED.
#[verifier::external_body]
pub struct PreflateError { _p: () }

impl PreflateError {
    #[verifier::external_body]
    pub fn new(exit_code: ExitCode, message: &str) -> PreflateError { unimplemented!() }
}

#[verifier::external_body]
pub fn err_exit_code<T>(error_code: ExitCode, message: &str) -> (r: std::result::Result<T, PreflateError>)
    ensures r is Err,
{ unimplemented!() }

impl From<std::io::Error> for PreflateError {
    #[verifier::external_body]
    fn from(e: std::io::Error) -> Self { unimplemented!() }
}

impl std::fmt::Debug for PreflateError {
    #[verifier::external_body]
    fn fmt(&self, f: &mut std::fmt::Formatter<'_>) -> std::fmt::Result { unimplemented!() }
}
