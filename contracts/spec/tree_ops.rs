// ---- tree predictor (tree_predictor.rs): the operations emitted for a dynamic header (frozen format at header level) ----
// A-DET: calc_bit_lengths (huffman_calc.rs) is a function of its arguments (body not verified)
pub uninterp spec fn sp_bitlen(calc: HufftreeBitCalc, freq: Seq<u16>, limit: int) -> Seq<u8>;
// The four small helpers of the tree predictor are written out (proved in U22 against the real bodies). FROZEN FORMAT
// (C04): the run-length thresholds 3 / 11, the run maxima 6 / 10 / 138 and the trailing-zero rule decide what the
// stored tree corrections mean.
/// first index in [start, max) at which s differs from v (max if there is none); start if start >= max
pub open spec fn run_end(s: Seq<u8>, v: u8, start: int, max: int) -> int
    decreases max - start
{ if start < max && 0 <= start < s.len() && s[start] == v { run_end(s, v, start + 1, max) } else { start } }
pub open spec fn min_int(a: int, b: int) -> int { if a < b { a } else { b } }
#[verifier::opaque]
pub open spec fn sp_pct(syms: Seq<u8>, prev: Option<u8>) -> TreeCodeType {
    if syms[0] == 0 {
        let c = run_end(syms, 0, 1, min_int(syms.len() as int, 11));
        if c >= 11 { TreeCodeType::ZeroLong } else if c >= 3 { TreeCodeType::ZeroShort } else { TreeCodeType::Code }
    } else {
        match prev {
            Some(code) => if run_end(syms, code, 0, syms.len() as int) >= 3 { TreeCodeType::Repeat } else { TreeCodeType::Code },
            None => TreeCodeType::Code,
        }
    }
}
#[verifier::opaque]
pub open spec fn sp_pcd(syms: Seq<u8>, t: TreeCodeType) -> u8 {
    match t {
        TreeCodeType::Code => syms[0],
        TreeCodeType::Repeat => run_end(syms, syms[0], 3, min_int(syms.len() as int, 6)) as u8,
        TreeCodeType::ZeroShort => run_end(syms, 0, 3, min_int(syms.len() as int, 10)) as u8,
        TreeCodeType::ZeroLong => run_end(syms, 0, 11, min_int(syms.len() as int, 138)) as u8,
    }
}
/// which of the 19 code-length symbols a run-length item is
pub open spec fn item_sym(it: (TreeCodeType, u8)) -> int { match it.0 { TreeCodeType::Code => it.1 as int, TreeCodeType::Repeat => 16, TreeCodeType::ZeroShort => 17, TreeCodeType::ZeroLong => 18 } }
pub open spec fn item_count(items: Seq<(TreeCodeType, u8)>, sym: int) -> int
    decreases items.len()
{ if items.len() == 0 { 0 } else { item_count(items.drop_last(), sym) + if item_sym(items.last()) == sym { 1int } else { 0int } } }
#[verifier::opaque]
pub open spec fn sp_ctfreq(items: Seq<(TreeCodeType, u8)>) -> Seq<u16> { Seq::new(19, |sym: int| item_count(items, sym) as u16) }
/// number of code-length-code entries that are announced: trailing zeros in the order of the RFC are dropped, at least 4
pub open spec fn tclen_from(tc: Seq<u8>, len: int) -> int
    decreases len
{
    if len > 4 && len <= 19 && (TREE_CODE_ORDER_TABLE[len - 1] >= tc.len() || tc[TREE_CODE_ORDER_TABLE[len - 1] as int] == 0) { tclen_from(tc, len - 1) } else { len }
}
#[verifier::opaque]
pub open spec fn sp_tclen(tc: Seq<u8>) -> int { tclen_from(tc, tc.len() as int) }
pub proof fn lemma_item_count_bound(items: Seq<(TreeCodeType, u8)>, sym: int)
    ensures 0 <= item_count(items, sym) <= items.len(),
    decreases items.len()
{ if items.len() > 0 { lemma_item_count_bound(items.drop_last(), sym); } }
pub proof fn lemma_run_end_bounds(s: Seq<u8>, v: u8, start: int, max: int)
    ensures start <= run_end(s, v, start, max), start <= max ==> run_end(s, v, start, max) <= max,
    decreases max - start
{ if start < max && 0 <= start < s.len() && s[start] == v { lemma_run_end_bounds(s, v, start + 1, max); } }

pub open spec fn m_lc() -> int { CodecMisprediction::LiteralCountMisprediction as int }
pub open spec fn m_dc() -> int { CodecMisprediction::DistanceCountMisprediction as int }
pub open spec fn m_tcc() -> int { CodecMisprediction::TreeCodeCountMisprediction as int }
pub open spec fn c_ldt() -> int { CodecCorrection::LDTypeCorrection as int }
pub open spec fn c_rep() -> int { CodecCorrection::RepeatCountCorrection as int }
pub open spec fn c_ldb() -> int { CodecCorrection::LDBitLengthCorrection as int }
pub open spec fn c_tcb() -> int { CodecCorrection::TreeCodeBitLengthCorrection as int }

/// vector v resized to n entries (Vec::resize with 0)
pub open spec fn resized(v: Seq<u8>, n: int) -> Seq<u8> { Seq::new(n as nat, |i: int| if i < v.len() { v[i] } else { 0u8 }) }

/// the previous symbol seen by predict_code_type when item k is processed
pub open spec fn ld_prev(bl: Seq<u8>, items: Seq<(TreeCodeType, u8)>, k: int) -> Option<u8> {
    if k <= 0 { None } else { Some(bl[rle_total(items.subrange(0, k - 1))]) }
}
/// the two corrections predict_ld_trees emits for item k
pub open spec fn ld_item_ops(bl: Seq<u8>, items: Seq<(TreeCodeType, u8)>, k: int) -> Seq<Op> {
    let s = bl.skip(rle_total(items.subrange(0, k)));
    let it = items[k];
    let pt = sp_pct(s, ld_prev(bl, items, k));
    seq![Op::Corr(c_ldt(), ediff(tc_sym(pt) as u32, tc_sym(it.0) as u32)),
         Op::Corr(if it.0 is Code { c_ldb() } else { c_rep() }, ediff(sp_pcd(s, it.0) as u32, it.1 as u32))]
}
pub open spec fn ld_ops(bl: Seq<u8>, items: Seq<(TreeCodeType, u8)>, n: int) -> Seq<Op>
    decreases n
{ if n <= 0 { Seq::<Op>::empty() } else { ld_ops(bl, items, n - 1) + ld_item_ops(bl, items, n - 1) } }

/// the predicted literal/distance lengths the run-length items are corrected against
pub open spec fn tree_bl(h: HuffmanOriginalEncoding, f: FreqV, calc: HufftreeBitCalc) -> Seq<u8> {
    resized(sp_bitlen(calc, f.lit, 15), h.num_literals as int) + resized(sp_bitlen(calc, f.dist, 15), h.num_dist as int)
}
pub open spec fn tc_pred(h: HuffmanOriginalEncoding, calc: HufftreeBitCalc) -> Seq<u8> { resized(sp_bitlen(calc, sp_ctfreq(h.lengths@), 7), 19) }
pub open spec fn tcb_ops(h: HuffmanOriginalEncoding, calc: HufftreeBitCalc, n: int) -> Seq<Op>
    decreases n
{
    if n <= 0 { Seq::<Op>::empty() } else {
        let i = TREE_CODE_ORDER_TABLE[n - 1] as int;
        tcb_ops(h, calc, n - 1).push(Op::Corr(c_tcb(), ediff(tc_pred(h, calc)[i] as u32, h.code_lengths@[i] as u32)))
    }
}
/// all operations of predict_tree_for_block
#[verifier::opaque]
pub open spec fn tree_ops_def(h: HuffmanOriginalEncoding, f: FreqV, calc: HufftreeBitCalc) -> Seq<Op> {
    let bl0 = sp_bitlen(calc, f.lit, 15); let dl0 = sp_bitlen(calc, f.dist, 15);
    let p1 = if bl0.len() != h.num_literals { seq![Op::Mis(m_lc(), true), Op::Value((h.num_literals - 257) as u16, 5)] } else { seq![Op::Mis(m_lc(), false)] };
    let p2 = if dl0.len() != h.num_dist { seq![Op::Mis(m_dc(), true), Op::Value((h.num_dist - 1) as u16, 5)] } else { seq![Op::Mis(m_dc(), false)] };
    let p3 = ld_ops(tree_bl(h, f, calc), h.lengths@, h.lengths@.len() as int);
    let tcl = sp_tclen(sp_bitlen(calc, sp_ctfreq(h.lengths@), 7));
    let p4 = if tcl != h.num_code_lengths { seq![Op::Mis(m_tcc(), true), Op::Value((h.num_code_lengths - 4) as u16, 4)] } else { seq![Op::Mis(m_tcc(), false)] };
    p1 + p2 + p3 + p4 + tcb_ops(h, calc, h.num_code_lengths as int)
}
