// ---- token frequencies of a block (input of the tree predictor): a function of block type and tokens ----
/// add_literal / add_reference: only dynamic blocks count (u16 counters wrap, fix e4753cc)
pub open spec fn freq_tok(bt: BlockType, f: FreqV, t: PreflateToken) -> FreqV {
    if !(bt is DynamicHuff) { f } else {
        match t {
            PreflateToken::Literal(l) => FreqV { lit: f.lit.update(l as int, wadd1(f.lit[l as int])), dist: f.dist },
            PreflateToken::Reference(r) => {
                let q = 257 + len_code(ref_len(r)); let d = dist_code(r.dist as u32);
                FreqV { lit: f.lit.update(q, wadd1(f.lit[q])), dist: f.dist.update(d, wadd1(f.dist[d])) }
            }
        }
    }
}
pub open spec fn freq_fold(bt: BlockType, f: FreqV, ts: Seq<PreflateToken>) -> FreqV
    decreases ts.len()
{ if ts.len() == 0 { f } else { freq_tok(bt, freq_fold(bt, f, ts.drop_last()), ts.last()) } }
/// the frequencies of a block built by new() + add_*: a function of its type and tokens
pub open spec fn freq_of(bt: BlockType, ts: Seq<PreflateToken>) -> FreqV { freq_fold(bt, freq0(), ts) }
