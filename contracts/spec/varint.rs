// ---- frozen format (C04): LEB128-style varint, 7 bits per byte, low group first, 0x80 = continuation ----
/// writer-side definition
pub open spec fn varint(v: nat) -> Seq<u8>
    decreases v
{
    if v < 128 { seq![v as u8] } else { seq![((v % 128) + 128) as u8] + varint(v / 128) }
}

/// reader-side definition: (value, bytes consumed)
pub open spec fn parse_varint(s: Seq<u8>) -> Option<(nat, nat)>
    decreases s.len()
{
    if s.len() == 0 { None }
    else if s[0] < 128 { Some((s[0] as nat, 1nat)) }
    else {
        match parse_varint(s.skip(1)) {
            None => None,
            Some((v, k)) => Some((((s[0] - 128) as nat + 128 * v) as nat, k + 1)),
        }
    }
}

/// a varint the 32-bit reader can take: at most five groups, value below 2^32
pub open spec fn varint32_ok(s: Seq<u8>) -> bool {
    parse_varint(s) matches Some((v, k)) && v < 0x100000000 && k <= 5
}

pub open spec fn p2(shift: nat) -> nat {
    if shift == 0 { 1 } else if shift == 7 { 0x80 } else if shift == 14 { 0x4000 }
    else if shift == 21 { 0x200000 } else if shift == 28 { 0x10000000 } else { 0x800000000 }
}

pub proof fn lemma_varint_len(v: nat)
    ensures
        1 <= varint(v).len(),
        v < 0x80 ==> varint(v).len() == 1,
        v < 0x4000 ==> varint(v).len() <= 2,
        v < 0x200000 ==> varint(v).len() <= 3,
        v < 0x10000000 ==> varint(v).len() <= 4,
        v < 0x800000000 ==> varint(v).len() <= 5,
    decreases v
{
    reveal_with_fuel(varint, 6);
    if v >= 128 { lemma_varint_len(v / 128); }
}

/// INVERSE LAW (C01/C04): the reader-side definition decodes the writer-side definition, whatever follows
pub proof fn lemma_parse_varint_inverse(v: nat, t: Seq<u8>)
    ensures parse_varint(varint(v) + t) == Some((v, varint(v).len())),
    decreases v
{
    let s = varint(v) + t;
    if v < 128 {
        assert(s[0] == v as u8);
    } else {
        assert(s[0] == ((v % 128) + 128) as u8);
        assert(s.skip(1) =~= varint(v / 128) + t);
        lemma_parse_varint_inverse(v / 128, t);
        assert(v == (v % 128) + 128 * (v / 128));
    }
}

pub proof fn lemma_parse_varint32_ok(v: nat, t: Seq<u8>)
    requires v < 0x100000000,
    ensures varint32_ok(varint(v) + t),
{
    lemma_parse_varint_inverse(v, t);
    lemma_varint_len(v);
}

pub proof fn lemma_parse_varint_bounds(s: Seq<u8>)
    ensures parse_varint(s) matches Some((v, k)) ==> 1 <= k <= s.len(),
    decreases s.len()
{
    if s.len() > 0 && s[0] >= 128 { lemma_parse_varint_bounds(s.skip(1)); }
}

proof fn lemma_bits_write(value: u32)
    ensures
        (value & 0x7F) == value % 128,
        (value >> 7) == value / 128,
        (value & 0x7F) < 128,
        (((value & 0x7F) as u8) | 0x80u8) == ((value & 0x7F) + 128) as u8,
{
    assert((value & 0x7F) == value % 128) by (bit_vector);
    assert((value >> 7) == value / 128) by (bit_vector);
    assert((value & 0x7F) < 128) by (bit_vector);
    let b = (value & 0x7F) as u8;
    assert(b < 128);
    assert((b | 0x80u8) == (b + 128) as u8) by (bit_vector) requires b < 128;
}

proof fn lemma_bits_read(result: u32, byte: u8, shift: u32)
    requires
        shift == 0 || shift == 7 || shift == 14 || shift == 21 || shift == 28,
        (result as nat) < p2(shift as nat),
        shift == 28 ==> (byte & 0x7F) < 16,
    ensures
        (byte & 0x7F) as nat == (byte as nat) % 128,
        (byte & 0x80 == 0) <==> byte < 128,
        (result | (((byte & 0x7F) as u32) << shift)) as nat == result as nat + ((byte as nat) % 128) * p2(shift as nat),
{
    assert((byte & 0x7F) == byte % 128) by (bit_vector);
    assert((byte & 0x80 == 0) <==> byte < 128) by (bit_vector);
    let x = (byte & 0x7F) as u32;
    assert(x < 128) by { assert((byte & 0x7F) < 128) by (bit_vector); }
    if shift == 0 {
        assert(result == 0);
        assert((0u32 | (x << 0u32)) == x) by (bit_vector);
    } else if shift == 7 {
        assert((result | (x << 7u32)) == result + x * 0x80) by (bit_vector) requires result < 0x80, x < 128;
    } else if shift == 14 {
        assert((result | (x << 14u32)) == result + x * 0x4000) by (bit_vector) requires result < 0x4000, x < 128;
    } else if shift == 21 {
        assert((result | (x << 21u32)) == result + x * 0x200000) by (bit_vector) requires result < 0x200000, x < 128;
    } else {
        assert((result | (x << 28u32)) == result + x * 0x10000000) by (bit_vector) requires result < 0x10000000, x < 16;
    }
}
