// ---- dynamic block header (RFC 1951 3.2.7) as HuffmanOriginalEncoding records it: shared by reader (U13) and writer (U15) ----
/// bits of one run-length item under the code-length code cl (the 19 lengths of the code-length alphabet)
pub open spec fn rle_item_bits(cl: Seq<u8>, it: (TreeCodeType, u8)) -> Seq<bool> {
    match it.0 {
        TreeCodeType::Code => sym_bits(cl, it.1 as int),
        t => sym_bits(cl, tc_sym(t)) + lsb_bits((it.1 - tc_sub(t)) as nat, tc_nbits(t)),
    }
}
pub open spec fn rle_bits(cl: Seq<u8>, items: Seq<(TreeCodeType, u8)>) -> Seq<bool>
    decreases items.len()
{ if items.len() == 0 { Seq::<bool>::empty() } else { rle_bits(cl, items.drop_last()) + rle_item_bits(cl, items.last()) } }

/// the length a Repeat item repeats. NOTE: this library repeats the last *explicit* length (a zero run does not reset
/// it), which differs from RFC 1951 / zlib (previous length, 0 after a zero run); the reader and the writer share it
pub open spec fn rle_prev(items: Seq<(TreeCodeType, u8)>) -> u8
    decreases items.len()
{ if items.len() == 0 { 0 } else { match items.last().0 { TreeCodeType::Code => items.last().1, _ => rle_prev(items.drop_last()) } } }
pub open spec fn rle_expand(items: Seq<(TreeCodeType, u8)>) -> Seq<u8>
    decreases items.len()
{
    if items.len() == 0 { Seq::<u8>::empty() } else {
        let before = items.drop_last(); let it = items.last();
        rle_expand(before) + (match it.0 {
            TreeCodeType::Code => seq![it.1],
            TreeCodeType::Repeat => Seq::new(it.1 as nat, |i: int| rle_prev(before)),
            _ => Seq::new(it.1 as nat, |i: int| 0u8),
        })
    }
}
/// RFC 1951 3.2.7 reading of the run-length items: symbol 16 copies the PREVIOUS code length (0 after a zero run)
pub open spec fn rle_expand_rfc(items: Seq<(TreeCodeType, u8)>) -> Seq<u8>
    decreases items.len()
{
    if items.len() == 0 { Seq::<u8>::empty() } else {
        let before = rle_expand_rfc(items.drop_last()); let it = items.last();
        before + (match it.0 {
            TreeCodeType::Code => seq![it.1],
            TreeCodeType::Repeat => Seq::new(it.1 as nat, |i: int| if before.len() == 0 { 0u8 } else { before.last() }),
            _ => Seq::new(it.1 as nat, |i: int| 0u8),
        })
    }
}
/// no symbol 16 copies a length that differs from the last explicit one (i.e. none follows a zero run that follows a
/// non-zero explicit length): every header zlib, zlib-ng, libdeflate and miniz_oxide write is of this kind
pub open spec fn rle_plain(items: Seq<(TreeCodeType, u8)>) -> bool {
    forall|i: int| 0 <= i < items.len() && items[i].0 == TreeCodeType::Repeat && items[i].1 > 0 ==> ({
        let b = rle_expand_rfc(items.subrange(0, i));
        rle_prev(items.subrange(0, i)) == (if b.len() == 0 { 0u8 } else { b.last() })
    })
}
/// C03: on such headers the code lengths this library decodes are the ones RFC 1951 defines
pub proof fn lemma_rle_rfc(items: Seq<(TreeCodeType, u8)>)
    requires rle_plain(items),
    ensures rle_expand(items) == rle_expand_rfc(items),
    decreases items.len()
{
    if items.len() > 0 {
        let n = items.len() as int;
        let before = items.drop_last();
        assert(rle_plain(before)) by {
            assert forall|i: int| 0 <= i < before.len() && before[i].0 == TreeCodeType::Repeat && before[i].1 > 0 implies ({
                let b = rle_expand_rfc(before.subrange(0, i));
                rle_prev(before.subrange(0, i)) == (if b.len() == 0 { 0u8 } else { b.last() }) }) by {
                assert(before.subrange(0, i) =~= items.subrange(0, i));
                assert(items[i] == before[i]);
            }
        }
        lemma_rle_rfc(before);
        assert(items.subrange(0, n - 1) =~= before);
        let it = items.last();
        if it.0 == TreeCodeType::Repeat {
            if it.1 > 0 {
                assert(items[n - 1] == it);
                let b = rle_expand_rfc(before);
                assert(Seq::new(it.1 as nat, |i: int| rle_prev(before)) =~= Seq::new(it.1 as nat, |i: int| if b.len() == 0 { 0u8 } else { b.last() }));
            } else {
                let b = rle_expand_rfc(before);
                assert(Seq::new(it.1 as nat, |i: int| rle_prev(before)) =~= Seq::new(it.1 as nat, |i: int| if b.len() == 0 { 0u8 } else { b.last() }));
            }
        }
    }
}
pub proof fn lemma_rle_expand_len(items: Seq<(TreeCodeType, u8)>)
    ensures rle_expand(items).len() == rle_total(items),
    decreases items.len()
{ if items.len() > 0 { lemma_rle_expand_len(items.drop_last()); } }

/// the first n entries of the code-length code, 3 bits each, in the permuted order of the RFC
pub open spec fn cl_bits(cl: Seq<u8>, n: nat) -> Seq<bool>
    decreases n
{ if n == 0 { Seq::<bool>::empty() } else { cl_bits(cl, (n - 1) as nat) + lsb_bits(cl[TREE_CODE_ORDER_TABLE[n - 1] as int] as nat, 3) } }

pub open spec fn henc_wf(e: HuffmanOriginalEncoding) -> bool {
    &&& 257 <= e.num_literals <= 288 && 1 <= e.num_dist <= 32 && 4 <= e.num_code_lengths <= 19
    &&& forall|i: int| 0 <= i < 19 ==> #[trigger] e.code_lengths[i] <= 7
    &&& forall|i: int| 0 <= i < e.lengths@.len() ==> rle_ok(#[trigger] e.lengths@[i])
    &&& rle_total(e.lengths@) == e.num_literals + e.num_dist
    // the code-length code is a complete prefix code (the reader builds its decoding tree, which checks this)
    &&& kraft(e.code_lengths@)
    // entries of the code-length code beyond HCLEN are zero
    &&& henc_tail_zero(e)
}
pub open spec fn henc_bits(e: HuffmanOriginalEncoding) -> Seq<bool> {
    lsb_bits((e.num_literals - 257) as nat, 5) + lsb_bits((e.num_dist - 1) as nat, 5) + lsb_bits((e.num_code_lengths - 4) as nat, 4)
        + cl_bits(e.code_lengths@, e.num_code_lengths as nat) + rle_bits(e.code_lengths@, e.lengths@)
}
pub open spec fn henc_ll(e: HuffmanOriginalEncoding) -> Seq<u8> { rle_expand(e.lengths@).subrange(0, e.num_literals as int) }
pub open spec fn henc_dl(e: HuffmanOriginalEncoding) -> Seq<u8> { rle_expand(e.lengths@).subrange(e.num_literals as int, rle_expand(e.lengths@).len() as int) }
pub open spec fn henc_codes(e: HuffmanOriginalEncoding) -> Codes { Codes { ll: henc_ll(e), dl: henc_dl(e) } }

/// the order table is a permutation of 0..19 (the RFC's order: checked against the RFC by Kani U10.tables)
pub proof fn lemma_order_table()
    ensures forall|i: int| 0 <= i < 19 ==> 0 <= #[trigger] TREE_CODE_ORDER_TABLE[i] < 19,
        forall|i: int, j: int| 0 <= i < j < 19 ==> TREE_CODE_ORDER_TABLE[i] != TREE_CODE_ORDER_TABLE[j],
{
    assert(TREE_CODE_ORDER_TABLE@ =~= seq![16usize, 17, 18, 0, 8, 7, 9, 6, 10, 5, 11, 4, 12, 3, 13, 2, 14, 1, 15]);
}
/// writing entry ORDER[n] does not disturb the bits of the entries written before
pub proof fn lemma_cl_bits_frame(a: Seq<u8>, b: Seq<u8>, n: nat)
    requires n < 19, a.len() == 19, b.len() == 19,
        forall|j: int| 0 <= j < 19 && j != TREE_CODE_ORDER_TABLE[n as int] ==> a[j] == b[j],
    ensures cl_bits(a, n) == cl_bits(b, n),
{
    lemma_order_table();
    lemma_cl_bits_same(a, b, n, n);
}
pub proof fn lemma_cl_bits_same(a: Seq<u8>, b: Seq<u8>, n: nat, m: nat)
    requires m <= n < 19, a.len() == 19, b.len() == 19,
        forall|j: int| 0 <= j < 19 && j != TREE_CODE_ORDER_TABLE[n as int] ==> a[j] == b[j],
    ensures cl_bits(a, m) == cl_bits(b, m),
    decreases m
{
    lemma_order_table();
    if m > 0 { lemma_cl_bits_same(a, b, n, (m - 1) as nat); }
}

