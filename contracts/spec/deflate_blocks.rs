// ---- DEFLATE blocks: the bits and the plaintext a PreflateTokenBlock denotes (reader U13, writer U15) ----
/// the padding of a stored block on the reader side: bits up to the next byte boundary, given the number of unread bits
pub open spec fn pad_count(remaining: nat) -> nat { remaining % 8 }

pub open spec fn fixed_ll() -> Seq<u8> { Seq::new(288, |i: int| if i < 144 { 8u8 } else if i < 256 { 9u8 } else if i < 280 { 7u8 } else { 8u8 }) }
pub open spec fn fixed_dl() -> Seq<u8> { Seq::new(32, |i: int| 5u8) }
pub open spec fn fixed_codes() -> Codes { Codes { ll: fixed_ll(), dl: fixed_dl() } }

/// bits of a stored block body (after the 3 header bits); `pad` = number of bits up to the next byte boundary
pub open spec fn stored_bits(b: PreflateTokenBlock, pad: nat) -> Seq<bool> {
    lsb_bits(b.padding_bits as nat, pad) + lsb_bits(b.uncompressed@.len() as nat, 16)
        + lsb_bits((0xffff - b.uncompressed@.len()) as nat, 16) + bytes_bits(b.uncompressed@)
}
/// RFC 1951 3.2.3-3.2.7: the bits of one block; `pad` matters for stored blocks only
pub open spec fn block_bits(b: PreflateTokenBlock, last: bool, pad: nat) -> Seq<bool> {
    lsb_bits(if last { 1 } else { 0 }, 1) + (match b.block_type {
        BlockType::Stored => lsb_bits(0, 2) + stored_bits(b, pad),
        BlockType::StaticHuff => lsb_bits(1, 2) + tokens_bits_c(fixed_codes(), b.tokens@) + sym_bits(fixed_ll(), 256),
        BlockType::DynamicHuff => lsb_bits(2, 2) + henc_bits(b.huffman_encoding)
            + tokens_bits_c(henc_codes(b.huffman_encoding), b.tokens@) + sym_bits(henc_ll(b.huffman_encoding), 256),
    })
}
/// the plaintext a block denotes when appended to `text`
pub open spec fn block_text(text: Seq<u8>, b: PreflateTokenBlock) -> Seq<u8> {
    match b.block_type { BlockType::Stored => text + b.uncompressed@, _ => apply_tokens(text, b.tokens@) }
}
pub open spec fn block_fits(text: Seq<u8>, b: PreflateTokenBlock) -> bool {
    match b.block_type { BlockType::Stored => b.uncompressed@.len() <= 65535 && b.tokens@.len() == 0, _ => tokens_fit(text, b.tokens@) }
}


/// the code lengths a block's tokens are coded with
pub open spec fn block_codes(b: PreflateTokenBlock) -> Codes {
    match b.block_type { BlockType::DynamicHuff => henc_codes(b.huffman_encoding), _ => fixed_codes() }
}
/// every token of a Huffman block can be coded with the block's code (its symbols exist) and the end-of-block symbol exists
pub open spec fn block_coded(b: PreflateTokenBlock) -> bool {
    b.block_type is Stored || ((b.block_type is DynamicHuff ==> kraft(block_codes(b).ll) && kraft(block_codes(b).dl)) && 256 < block_codes(b).ll.len()
        && forall|i: int| 0 <= i < b.tokens@.len() ==> token_ok(#[trigger] b.tokens@[i]) && tok_syms_ok(block_codes(b), b.tokens@[i]))
}

/// the fixed code of RFC 1951 3.2.6 is a complete prefix code (24 codes of 7 bits, 152 of 8, 112 of 9; 32 of 5 bits)
pub proof fn lemma_fixed_kraft()
    ensures kraft_ok(fixed_ll()), kraft_ok(fixed_dl()),
{
    let l = fixed_ll();
    assert forall|d: int| 1 <= d <= 15 implies #[trigger] cnt_all(l, d) == (if d == 7 { 24int } else if d == 8 { 152int } else if d == 9 { 112int } else { 0int }) by {
        lemma_cnt_range(l, 8, 0, 144, d); lemma_cnt_range(l, 9, 144, 256, d); lemma_cnt_range(l, 7, 256, 280, d); lemma_cnt_range(l, 8, 280, 288, d);
    }
    assert(slots(l, 1) == 2); assert(slots(l, 2) == 4); assert(slots(l, 3) == 8); assert(slots(l, 4) == 16); assert(slots(l, 5) == 32);
    assert(slots(l, 6) == 64); assert(slots(l, 7) == 128); assert(slots(l, 8) == 208); assert(slots(l, 9) == 112); assert(slots(l, 10) == 0);
    assert(slots(l, 11) == 0); assert(slots(l, 12) == 0); assert(slots(l, 13) == 0); assert(slots(l, 14) == 0); assert(slots(l, 15) == 0); assert(slots(l, 16) == 0);
    assert(kraft_ok(l));
    let m = fixed_dl();
    assert forall|d: int| 1 <= d <= 15 implies #[trigger] cnt_all(m, d) == (if d == 5 { 32int } else { 0int }) by {
        lemma_cnt_range(m, 5, 0, 32, d);
    }
    assert(slots(m, 1) == 2); assert(slots(m, 2) == 4); assert(slots(m, 3) == 8); assert(slots(m, 4) == 16); assert(slots(m, 5) == 32);
    assert(slots(m, 6) == 0); assert(slots(m, 7) == 0); assert(slots(m, 8) == 0); assert(slots(m, 9) == 0); assert(slots(m, 10) == 0);
    assert(slots(m, 11) == 0); assert(slots(m, 12) == 0); assert(slots(m, 13) == 0); assert(slots(m, 14) == 0); assert(slots(m, 15) == 0); assert(slots(m, 16) == 0);
    assert(kraft_ok(m));
}

// ---- block sequences and whole streams ----
/// the bits of a block sequence; every block but possibly the final one carries final-flag 0; a stored block is
/// padded to the byte boundary its position in the stream implies
pub open spec fn blocks_bits(bs: Seq<PreflateTokenBlock>, fin: bool) -> Seq<bool>
    decreases bs.len()
{
    if bs.len() == 0 { Seq::<bool>::empty() } else {
        let prev = blocks_bits(bs.drop_last(), false);
        prev + block_bits(bs.last(), fin, ((8 - (prev.len() + 3) % 8) % 8) as nat)
    }
}
pub open spec fn blocks_text(bs: Seq<PreflateTokenBlock>) -> Seq<u8>
    decreases bs.len()
{ if bs.len() == 0 { Seq::<u8>::empty() } else { block_text(blocks_text(bs.drop_last()), bs.last()) } }
pub open spec fn blocks_fit(bs: Seq<PreflateTokenBlock>) -> bool
    decreases bs.len()
{ if bs.len() == 0 { true } else { blocks_fit(bs.drop_last()) && block_fits(blocks_text(bs.drop_last()), bs.last()) } }

/// a whole DEFLATE stream (RFC 1951): blocks, the last one flagged final, then padding up to the byte boundary
pub open spec fn stream_bits(bs: Seq<PreflateTokenBlock>, eof_padding: u8) -> Seq<bool> {
    let b = blocks_bits(bs, true);
    b + lsb_bits(eof_padding as nat, ((8 - b.len() % 8) % 8) as nat)
}

