// ---- the parameter vector fits the widths of the frozen header (shared by U4 and U19) ----
/// every field fits its stored width (and the Lazy/Greedy distinction survives: Lazy has max_lazy > 0)
pub open spec fn fits(p: PreflateParameters) -> bool {
    let t = p.predictor;
    &&& t.window_bits < 256
    &&& (t.hash_algorithm matches HashAlgorithm::Zlib { hash_mask, hash_shift } ==> hash_shift < 256)
    &&& t.nice_length < 0x10000 && t.max_chain < 0x10000 && t.min_len < 0x10000
    &&& (t.matching_type matches MatchingType::Lazy { good_length, max_lazy } ==> max_lazy > 0)
    &&& (t.add_policy matches DictionaryAddPolicy::AddFirst(v) ==> v < 256)
    &&& (t.add_policy matches DictionaryAddPolicy::AddFirstAndLast(v) ==> v < 256)
}
