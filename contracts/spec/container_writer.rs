// ---- writer-side view of the container and the C01 inverse law ----
pub open spec fn covered(c: BlockChunk) -> nat {
    match c {
        BlockChunk::Literal(n) => n as nat,
        BlockChunk::DeflateStream(res) => res.compressed_size as nat,
        BlockChunk::IDATDeflate(idat, res) => idat.total_chunk_length as nat,
    }
}

pub open spec fn stream_pair_bytes(res: DecompressResult) -> Seq<u8> {
    varint(res.plain_text@.len()) + res.plain_text@ + varint(res.prediction_corrections@.len()) + res.prediction_corrections@
}

/// frozen chunk layout as the writer produces it; `lit` is the not-yet-covered rest of the file
pub open spec fn chunk_bytes(c: BlockChunk, lit: Seq<u8>) -> Seq<u8> {
    match c {
        BlockChunk::Literal(n) => seq![0u8] + varint(n as nat) + lit.subrange(0, n as int),
        BlockChunk::DeflateStream(res) => seq![1u8] + stream_pair_bytes(res),
        BlockChunk::IDATDeflate(idat, res) => seq![2u8] + idat_desc(idat.chunk_sizes@, idat.zlib_header@, idat.addler32) + stream_pair_bytes(res),
    }
}

pub open spec fn res_ok(res: DecompressResult) -> bool {
    res.plain_text@.len() < 0x100000000 && res.prediction_corrections@.len() < 0x100000000
}

/// what a chunk must satisfy so that the reader reconstructs `piece` from it (the scanner's obligation)
pub open spec fn chunk_ok(c: BlockChunk, piece: Seq<u8>) -> bool {
    match c {
        BlockChunk::Literal(n) => n as nat == piece.len() && n < 0x100000000,
        BlockChunk::DeflateStream(res) => res_ok(res) && res.compressed_size as nat == piece.len()
            && recompress_spec(res.plain_text@, res.prediction_corrections@) == Some(piece),
        BlockChunk::IDATDeflate(idat, res) => res_ok(res) && idat.total_chunk_length as nat == piece.len()
            && (forall|i: int| 0 <= i < idat.chunk_sizes@.len() ==> idat.chunk_sizes@[i] != 0)
            && (recompress_spec(res.plain_text@, res.prediction_corrections@) matches Some(d)
                && sum_u32(idat.chunk_sizes@) == d.len() + 6 && sum_u32(idat.chunk_sizes@) + 6 <= 0xFFFF_FFFF
                && idat_bytes(idat.chunk_sizes@, idat.zlib_header@, idat.addler32, d) == piece),
    }
}

pub open spec fn chunks_cover(cs: Seq<BlockChunk>, f: Seq<u8>) -> bool
    decreases cs.len()
{
    if cs.len() == 0 { f.len() == 0 } else {
        let n = covered(cs[0]) as int;
        n <= f.len() && chunk_ok(cs[0], f.subrange(0, n)) && chunks_cover(cs.skip(1), f.skip(n))
    }
}

pub open spec fn container_bytes(cs: Seq<BlockChunk>, f: Seq<u8>) -> Seq<u8>
    decreases cs.len()
{
    if cs.len() == 0 { Seq::<u8>::empty() } else {
        chunk_bytes(cs[0], f) + container_bytes(cs.skip(1), f.skip(covered(cs[0]) as int))
    }
}

// ---------------- inverse lemmas (spec level) ----------------
pub proof fn lemma_parse_blob_inverse(b: Seq<u8>, t: Seq<u8>)
    requires b.len() < 0x100000000,
    ensures parse_blob(varint(b.len()) + b + t) == Some((b, varint(b.len()).len() + b.len())),
{
    let s = varint(b.len()) + b + t;
    assert(s =~= varint(b.len()) + (b + t));
    lemma_parse_varint_inverse(b.len(), b + t);
    lemma_varint_len(b.len());
    let k = varint(b.len()).len();
    assert(s.subrange(k as int, (k + b.len()) as int) =~= b);
}

pub proof fn lemma_stream_pair_inverse(res: DecompressResult, t: Seq<u8>)
    requires res_ok(res),
    ensures parse_stream_pair(stream_pair_bytes(res) + t) == Some((res.plain_text@, res.prediction_corrections@, stream_pair_bytes(res).len())),
{
    let pt = res.plain_text@; let cor = res.prediction_corrections@;
    let s = stream_pair_bytes(res) + t;
    let t1 = varint(cor.len()) + cor + t;
    assert(s =~= varint(pt.len()) + pt + t1);
    lemma_parse_blob_inverse(pt, t1);
    let a = varint(pt.len()).len() + pt.len();
    assert(s.skip(a as int) =~= t1);
    lemma_parse_blob_inverse(cor, t);
}

pub proof fn lemma_varint_zero_iff(v: nat)
    ensures varint(v)[0] == 0 <==> v == 0,
{
    if v >= 128 { assert(varint(v)[0] == ((v % 128) + 128) as u8); }
}

pub proof fn lemma_parse_sizes_inverse(sizes: Seq<u32>, t: Seq<u8>)
    requires forall|i: int| 0 <= i < sizes.len() ==> sizes[i] != 0,
    ensures parse_sizes(varints(sizes) + seq![0u8] + t) == Some((sizes, varints(sizes).len() + 1)),
    decreases sizes.len()
{
    let s = varints(sizes) + seq![0u8] + t;
    if sizes.len() == 0 {
        assert(s =~= seq![0u8] + t);
        assert(s[0] == 0);
    } else {
        let v = sizes[0] as nat;
        let t1 = varints(sizes.skip(1)) + seq![0u8] + t;
        assert(s =~= varint(v) + t1);
        lemma_parse_varint_inverse(v, t1);
        lemma_varint_len(v);
        let k = varint(v).len();
        assert(s.skip(k as int) =~= t1);
        lemma_parse_sizes_inverse(sizes.skip(1), t);
        assert(seq![v as u32] + sizes.skip(1) =~= sizes);
    }
}

pub proof fn lemma_idat_desc_inverse(sizes: Seq<u32>, hdr: Seq<u8>, adler: u32, t: Seq<u8>)
    requires hdr.len() == 2, forall|i: int| 0 <= i < sizes.len() ==> sizes[i] != 0,
    ensures parse_idat_desc(idat_desc(sizes, hdr, adler) + t)
        == Some(IdatDescV { sizes, hdr, adler, len: idat_desc(sizes, hdr, adler).len() }),
{
    let s = idat_desc(sizes, hdr, adler) + t;
    let t1 = hdr + be32(adler) + t;
    assert(s =~= varints(sizes) + seq![0u8] + t1);
    lemma_parse_sizes_inverse(sizes, t1);
    lemma_be32_inverse(adler);
    let k = (varints(sizes).len() + 1) as int;
    assert(s.subrange(k, k + 2) =~= hdr);
    assert(s.subrange(k + 2, k + 6) =~= be32(adler));
}

proof fn lemma_chunk_inverse_literal(n: usize, f: Seq<u8>, t: Seq<u8>)
    requires n <= f.len(), n < 0x100000000,
    ensures recreate_chunk(chunk_bytes(BlockChunk::Literal(n), f) + t) == Some((f.subrange(0, n as int), chunk_bytes(BlockChunk::Literal(n), f).len())),
{
    reveal(recreate_chunk);
    let s = chunk_bytes(BlockChunk::Literal(n), f) + t;
    let b = f.subrange(0, n as int);
    assert(s.skip(1) =~= varint(b.len()) + b + t);
    assert(s[0] == 0);
    lemma_parse_blob_inverse(b, t);
}

proof fn lemma_chunk_inverse_deflate(res: DecompressResult, piece: Seq<u8>, t: Seq<u8>)
    requires res_ok(res), recompress_spec(res.plain_text@, res.prediction_corrections@) == Some(piece),
    ensures recreate_chunk(seq![1u8] + stream_pair_bytes(res) + t) == Some((piece, 1 + stream_pair_bytes(res).len())),
{
    reveal(recreate_chunk);
    let s = seq![1u8] + stream_pair_bytes(res) + t;
    assert(s[0] == 1);
    assert(s.skip(1) =~= stream_pair_bytes(res) + t);
    lemma_stream_pair_inverse(res, t);
}

proof fn lemma_chunk_inverse_idat(idat: IdatContents, res: DecompressResult, d: Seq<u8>, t: Seq<u8>)
    requires
        res_ok(res), recompress_spec(res.plain_text@, res.prediction_corrections@) == Some(d),
        forall|i: int| 0 <= i < idat.chunk_sizes@.len() ==> idat.chunk_sizes@[i] != 0,
        sum_u32(idat.chunk_sizes@) == d.len() + 6, sum_u32(idat.chunk_sizes@) + 6 <= 0xFFFF_FFFF,
    ensures ({
        let desc = idat_desc(idat.chunk_sizes@, idat.zlib_header@, idat.addler32);
        recreate_chunk(seq![2u8] + desc + stream_pair_bytes(res) + t)
            == Some((idat_bytes(idat.chunk_sizes@, idat.zlib_header@, idat.addler32, d), 1 + desc.len() + stream_pair_bytes(res).len()))
    }),
{
    let desc = idat_desc(idat.chunk_sizes@, idat.zlib_header@, idat.addler32);
    let s = seq![2u8] + desc + stream_pair_bytes(res) + t;
    let t1 = stream_pair_bytes(res) + t;
    assert(s[0] == 2);
    assert(s.skip(1) =~= desc + t1);
    lemma_idat_desc_inverse(idat.chunk_sizes@, idat.zlib_header@, idat.addler32, t1);
    assert(s.skip(1 + desc.len() as int) =~= t1);
    lemma_stream_pair_inverse(res, t);
    let dv = IdatDescV { sizes: idat.chunk_sizes@, hdr: idat.zlib_header@, adler: idat.addler32, len: desc.len() };
    assert(parse_idat_desc(s.skip(1)) == Some(dv));
    assert(parse_stream_pair(s.skip(1 + dv.len as int)) == Some((res.plain_text@, res.prediction_corrections@, stream_pair_bytes(res).len())));
    reveal(recreate_chunk);
}

/// INVERSE LAW for one chunk (C01): the reader-side semantics of the writer-side bytes is the covered piece
pub proof fn lemma_chunk_inverse(c: BlockChunk, f: Seq<u8>, t: Seq<u8>)
    requires covered(c) <= f.len(), chunk_ok(c, f.subrange(0, covered(c) as int)),
    ensures recreate_chunk(chunk_bytes(c, f) + t) == Some((f.subrange(0, covered(c) as int), chunk_bytes(c, f).len())),
{
    match c {
        BlockChunk::Literal(n) => { lemma_chunk_inverse_literal(n, f, t); }
        BlockChunk::DeflateStream(res) => { lemma_chunk_inverse_deflate(res, f.subrange(0, covered(c) as int), t); }
        BlockChunk::IDATDeflate(idat, res) => {
            let d = recompress_spec(res.plain_text@, res.prediction_corrections@)->Some_0;
            lemma_chunk_inverse_idat(idat, res, d, t);
        }
    }
}

/// THEOREM C01 (container level): whatever chunk list covers F, the reader-side semantics of its bytes is F
pub proof fn lemma_container_inverse(cs: Seq<BlockChunk>, f: Seq<u8>)
    requires chunks_cover(cs, f),
    ensures recreate_all(container_bytes(cs, f)) == Some(f),
    decreases cs.len()
{
    if cs.len() == 0 {
        assert(f =~= Seq::<u8>::empty());
    } else {
        let n = covered(cs[0]) as int;
        let t = container_bytes(cs.skip(1), f.skip(n));
        let s = container_bytes(cs, f);
        lemma_chunk_inverse(cs[0], f, t);
        lemma_container_inverse(cs.skip(1), f.skip(n));
        let k = chunk_bytes(cs[0], f).len();
        assert(k >= 1) by { lemma_chunk_nonempty(cs[0], f); }
        assert(s.skip(k as int) =~= t);
        assert(f.subrange(0, n) + f.skip(n) =~= f);
    }
}

pub proof fn lemma_chunk_nonempty(c: BlockChunk, f: Seq<u8>)
    ensures chunk_bytes(c, f).len() >= 1,
{}
