// ---- hop counting on a hash chain (hash_chain_holder.rs calculate_hops / hop_match): formerly assumption A-HOP ----
/// what stays fixed during a run: the plaintext and the parameters
pub struct Env { pub text: Seq<u8>, pub p: TokenPredictorParameters }

/// A-DET: the distances `hash.iterate(input, 0)` yields, in order, are a function of the abstract chain state, the
/// plaintext, the parameters and the position; the chain is finite (hash_chain.rs is not verified)
pub uninterp spec fn sp_chain(hv: int, e: Env, pos: int) -> Seq<u32>;
/// A-DET: the window size the holder was constructed with (1 << window_bits; the constructor is not verified)
pub uninterp spec fn sp_window(p: TokenPredictorParameters) -> u32;

pub open spec fn hop_maxdist(e: Env, pos: int) -> int { if pos < sp_window(e.p) { pos } else { sp_window(e.p) as int } }
/// the `len` bytes at pos repeat the bytes `dist` earlier (what an LZ77 reference of that length and distance means)
pub open spec fn ref_matches(text: Seq<u8>, pos: int, dist: int, len: int) -> bool {
    forall|i: int| 0 <= i < len ==> #[trigger] text[pos + i] == text[pos + i - dist]
}
pub open spec fn hop_avail(e: Env, pos: int) -> int { if e.text.len() - pos < 258 { e.text.len() - pos } else { 258 } }

/// calculate_hops from chain index i on, h candidates counted so far, `budget` chain steps left (0xffff at the start)
pub open spec fn hops_walk(c: Seq<u32>, i: int, h: int, budget: int, e: Env, pos: int, len: int, target: int) -> Option<int>
    decreases c.len() - i
{
    if i < 0 || i >= c.len() { None } else {
        let d = c[i] as int;
        if d > hop_maxdist(e, pos) { None } else {
            let h2 = if ref_matches(e.text, pos, d, len) { h + 1 } else { h };
            if d >= target { if d == target { Some(h2) } else { None } }
            else if budget <= 1 { None }
            else { hops_walk(c, i + 1, h2, budget - 1, e, pos, len, target) }
        }
    }
}
pub open spec fn sp_hops(hv: int, len: u32, dist: u32, e: Env, pos: int) -> Option<u32> {
    if hop_avail(e, pos) < len { None } else {
        match hops_walk(sp_chain(hv, e, pos), 0, 0, 0xffff, e, pos, len as int, dist as int) { Some(h) => Some(h as u32), None => None }
    }
}
/// hop_match from chain index i on, cur candidates counted so far
pub open spec fn hopm_walk(c: Seq<u32>, i: int, cur: int, e: Env, pos: int, len: int, hops: int) -> Option<u32>
    decreases c.len() - i
{
    if i < 0 || i >= c.len() { None } else {
        let d = c[i] as int;
        if d > hop_maxdist(e, pos) { None } else if ref_matches(e.text, pos, d, len) {
            if cur + 1 == hops { Some(c[i]) } else { hopm_walk(c, i + 1, cur + 1, e, pos, len, hops) }
        } else { hopm_walk(c, i + 1, cur, e, pos, len, hops) }
    }
}
pub open spec fn sp_hop_match(hv: int, len: u32, hops: u32, e: Env, pos: int) -> Option<u32> {
    if hop_avail(e, pos) < len { None } else { hopm_walk(sp_chain(hv, e, pos), 0, 0, e, pos, len as int, hops as int) }
}

/// the two walks agree: if counting from (i, h) reaches the target with count r, then looking for candidate number r
/// from (i, h) finds the target distance -- provided the target really is a candidate
pub proof fn lemma_hops_walk_inverse(c: Seq<u32>, i: int, h: int, budget: int, e: Env, pos: int, len: int, target: int)
    requires 0 <= h, 1 <= budget, ref_matches(e.text, pos, target, len), 0 <= target <= u32::MAX,
        hops_walk(c, i, h, budget, e, pos, len, target) is Some,
    ensures ({
        let r = hops_walk(c, i, h, budget, e, pos, len, target)->Some_0;
        h + 1 <= r && r <= h + budget && hopm_walk(c, i, h, e, pos, len, r) == Some(target as u32)
    }),
    decreases c.len() - i
{
    let d = c[i] as int;
    let h2 = if ref_matches(e.text, pos, d, len) { h + 1 } else { h };
    if d >= target {
        assert(d == target);
    } else {
        lemma_hops_walk_inverse(c, i + 1, h2, budget - 1, e, pos, len, target);
    }
}
/// formerly axiom A-HOP, now proved: hop_match inverts calculate_hops for a reference that lies in the text
pub proof fn lemma_hop_inverse(hv: int, len: u32, dist: u32, e: Env, pos: int)
    requires ref_matches(e.text, pos, dist as int, len as int),
    ensures sp_hops(hv, len, dist, e, pos) matches Some(h) ==> 1 <= h <= 0xffff && sp_hop_match(hv, len, h, e, pos) == Some(dist),
{
    if sp_hops(hv, len, dist, e, pos) is Some {
        lemma_hops_walk_inverse(sp_chain(hv, e, pos), 0, 0, 0xffff, e, pos, len as int, dist as int);
    }
}
