// ---- hop counting on a hash chain (hash_chain_holder.rs calculate_hops / hop_match): formerly assumption A-HOP ----
/// what stays fixed during a run: the plaintext and the parameters
pub struct Env { pub text: Seq<u8>, pub p: TokenPredictorParameters }

/// A-DET: the distances `hash.iterate(input, 0)` yields, in order, are a function of the abstract chain state, the
/// plaintext, the parameters and the position; the chain is finite (hash_chain.rs is not verified)
pub uninterp spec fn sp_chain(hv: int, e: Env, pos: int) -> Seq<u32>;
/// the window size the holder is constructed with (`1 << params.window_bits`; that the unverified constructor stores
/// exactly this is part of the holder invariant hwf, A-DET)
pub open spec fn sp_window(p: TokenPredictorParameters) -> u32 { if p.window_bits < 32 { 1u32 << p.window_bits } else { 0 } }

pub open spec fn hop_maxdist(e: Env, pos: int) -> int { if pos < sp_window(e.p) { pos } else { sp_window(e.p) as int } }
/// the `len` bytes at pos repeat the bytes `dist` earlier (what an LZ77 reference of that length and distance means)
pub open spec fn ref_matches(text: Seq<u8>, pos: int, dist: int, len: int) -> bool {
    forall|i: int| 0 <= i < len ==> #[trigger] text[pos + i] == text[pos + i - dist]
}
pub open spec fn hop_avail(e: Env, pos: int) -> int { if e.text.len() - pos < 258 { e.text.len() - pos } else { 258 } }

/// calculate_hops from chain index i on, h candidates counted so far, `budget` chain steps left (0xffff at the start)
pub open spec fn hops_walk(c: Seq<u32>, i: int, h: int, budget: int, e: Env, pos: int, len: int, target: int) -> Option<int>
    decreases c.len() - i
{
    if i < 0 || i >= c.len() { None } else {
        let d = c[i] as int;
        if d > hop_maxdist(e, pos) { None } else {
            let h2 = if ref_matches(e.text, pos, d, len) { h + 1 } else { h };
            if d >= target { if d == target { Some(h2) } else { None } }
            else if budget <= 1 { None }
            else { hops_walk(c, i + 1, h2, budget - 1, e, pos, len, target) }
        }
    }
}
pub open spec fn sp_hops(hv: int, len: u32, dist: u32, e: Env, pos: int) -> Option<u32> {
    if hop_avail(e, pos) < len { None } else {
        match hops_walk(sp_chain(hv, e, pos), 0, 0, 0xffff, e, pos, len as int, dist as int) { Some(h) => Some(h as u32), None => None }
    }
}
/// hop_match from chain index i on, cur candidates counted so far
pub open spec fn hopm_walk(c: Seq<u32>, i: int, cur: int, e: Env, pos: int, len: int, hops: int) -> Option<u32>
    decreases c.len() - i
{
    if i < 0 || i >= c.len() { None } else {
        let d = c[i] as int;
        if d > hop_maxdist(e, pos) { None } else if ref_matches(e.text, pos, d, len) {
            if cur + 1 == hops { Some(c[i]) } else { hopm_walk(c, i + 1, cur + 1, e, pos, len, hops) }
        } else { hopm_walk(c, i + 1, cur, e, pos, len, hops) }
    }
}
pub open spec fn sp_hop_match(hv: int, len: u32, hops: u32, e: Env, pos: int) -> Option<u32> {
    if hop_avail(e, pos) < len { None } else { hopm_walk(sp_chain(hv, e, pos), 0, 0, e, pos, len as int, hops as int) }
}

/// the two walks agree: if counting from (i, h) reaches the target with count r, then looking for candidate number r
/// from (i, h) finds the target distance -- provided the target really is a candidate
pub proof fn lemma_hops_walk_inverse(c: Seq<u32>, i: int, h: int, budget: int, e: Env, pos: int, len: int, target: int)
    requires 0 <= h, 1 <= budget, ref_matches(e.text, pos, target, len), 0 <= target <= u32::MAX,
        hops_walk(c, i, h, budget, e, pos, len, target) is Some,
    ensures ({
        let r = hops_walk(c, i, h, budget, e, pos, len, target)->Some_0;
        h + 1 <= r && r <= h + budget && hopm_walk(c, i, h, e, pos, len, r) == Some(target as u32)
    }),
    decreases c.len() - i
{
    let d = c[i] as int;
    let h2 = if ref_matches(e.text, pos, d, len) { h + 1 } else { h };
    if d >= target {
        assert(d == target);
    } else {
        lemma_hops_walk_inverse(c, i + 1, h2, budget - 1, e, pos, len, target);
    }
}
/// formerly axiom A-HOP, now proved: hop_match inverts calculate_hops for a reference that lies in the text
pub proof fn lemma_hop_inverse(hv: int, len: u32, dist: u32, e: Env, pos: int)
    requires ref_matches(e.text, pos, dist as int, len as int),
    ensures sp_hops(hv, len, dist, e, pos) matches Some(h) ==> 1 <= h <= 0xffff && sp_hop_match(hv, len, h, e, pos) == Some(dist),
{
    if sp_hops(hv, len, dist, e, pos) is Some {
        lemma_hops_walk_inverse(sp_chain(hv, e, pos), 0, 0, 0xffff, e, pos, len as int, dist as int);
    }
}

// ---- the match search (hash_chain_holder.rs match_token_offset::<OFFSET>): formerly part of A-DET ----
/// A-DET: how many bytes the hash of the configured algorithm reads (H::num_hash_bytes())
pub uninterp spec fn sp_hash_bytes(p: TokenPredictorParameters) -> int;
/// A-DET: the distances `hash.iterate(input, 1)` yields (the lazy-match probe one byte ahead)
pub uninterp spec fn sp_chain1(hv: int, e: Env, pos: int) -> Seq<u32>;

/// parameters under which the match search is free of arithmetic faults: the window is at least MIN_LOOKAHEAD and at
/// most 32 KiB, the chain budget is positive -- also after zlib's quartering for "good" matches (the estimator only
/// produces such vectors: U19 / U23)
pub open spec fn pp_ok(p: TokenPredictorParameters) -> bool {
    if p.strategy is Store || p.strategy is HuffOnly {
        // no dictionary: the search returns before it touches the window or the chain budget
        !p.very_far_matches_detected
    } else {
        &&& 262 <= sp_window(p) <= 32768 && p.max_chain >= 1
        &&& (!p.zlib_compatible || lazy_ok(p.matching_type, p.max_chain))
    }
}
/// the chain budget handed to a search is positive wherever a search can take place
pub open spec fn depth_ok(p: TokenPredictorParameters, max_depth: u32) -> bool { max_depth >= 1 || p.strategy is Store || p.strategy is HuffOnly }
/// prefix_compare: 0 unless the byte at best_len and the first three bytes agree, otherwise the length of the common
/// prefix, at most max_len
pub open spec fn pc_run(s1: Seq<u8>, s2: Seq<u8>, i: int, max: int) -> int
    decreases max - i
{ if i < max && 0 <= i < s1.len() && i < s2.len() && s1[i] == s2[i] { pc_run(s1, s2, i + 1, max) } else { i } }
pub open spec fn pc_spec(s1: Seq<u8>, s2: Seq<u8>, best_len: int, max_len: int) -> int {
    if s1[best_len] != s2[best_len] || s1[0] != s2[0] || s1[1] != s2[1] || s1[2] != s2[2] { 0 } else { pc_run(s1, s2, 3, max_len) }
}
/// the constants of one search
pub struct MK { pub sp: int, pub max_len: int, pub hop0: int, pub hop1: int, pub nice: int, pub d3: int, pub depth: u32 }
pub open spec fn mt_fin(best: Option<PreflateTokenReference>) -> MatchResult {
    match best { Some(r) => MatchResult::Success(r), None => MatchResult::NoMoreMatchesFound }
}
/// the chain walk of match_token_offset from index i on
pub open spec fn mt_walk(c: Seq<u32>, i: int, first: bool, best_len: int, best: Option<PreflateTokenReference>, left: int, k: MK, text: Seq<u8>) -> MatchResult
    decreases c.len() - i
{
    if i < 0 || i >= c.len() { mt_fin(best) } else {
        let d = c[i] as int;
        if first && d > k.hop0 { MatchResult::DistanceLargerThanHop0(c[i], k.hop0 as u32) }
        else if !first && d > k.hop1 { mt_fin(best) }
        else {
            let ml = pc_spec(text.subrange(k.sp - d, text.len() as int), text.subrange(k.sp, text.len() as int), best_len, k.max_len);
            let r = PreflateTokenReference { len: (ml - 3) as u8, dist: d as u16, irregular258: false };
            if ml > best_len && ml >= k.nice && (ml > 3 || d <= k.d3) { MatchResult::Success(r) }
            else if ml > best_len && ml >= k.max_len { MatchResult::Success(r) }
            else {
                let bl2 = if ml > best_len { ml } else { best_len };
                let b2 = if ml > best_len { Some(r) } else { best };
                if left - 1 == 0 { match b2 { Some(x) => MatchResult::Success(x), None => MatchResult::MaxChainExceeded(k.depth) } }
                else { mt_walk(c, i + 1, false, bl2, b2, left - 1, k, text) }
            }
        }
    }
}
pub open spec fn min2(a: int, b: int) -> int { if a < b { a } else { b } }
pub open spec fn max2(a: int, b: int) -> int { if a < b { b } else { a } }
/// match_token_offset::<off> as a function of the chain
pub open spec fn sp_match(off: int, c: Seq<u32>, prev_len: u32, max_depth: u32, e: Env, pos: int) -> MatchResult {
    let sp = pos + off;
    let max_len = min2(e.text.len() - sp, 258);
    if max_len < max2(prev_len + 1, max2(sp_hash_bytes(e.p), 3)) { MatchResult::NoInput } else {
        let to_start = sp - (if e.p.matches_to_start_detected { 0int } else { 1int });
        let w = sp_window(e.p) as int;
        let nice = min2(e.p.nice_length as int, max_len);
        if e.p.very_far_matches_detected {
            let h = min2(to_start, w);
            mt_walk(c, 0, true, prev_len as int, None, max_depth as int, MK { sp, max_len, hop0: h, hop1: h, nice, d3: e.p.max_dist_3_matches as int, depth: max_depth }, e.text)
        } else {
            match e.p.strategy {
                PreflateStrategy::HuffOnly => MatchResult::NoMoreMatchesFound,
                PreflateStrategy::Store => MatchResult::NoMoreMatchesFound,
                PreflateStrategy::RleOnly => mt_walk(c, 0, true, prev_len as int, None, max_depth as int, MK { sp, max_len, hop0: 1, hop1: 1, nice, d3: e.p.max_dist_3_matches as int, depth: max_depth }, e.text),
                PreflateStrategy::Default => {
                    let md = w - 262 + 1;
                    mt_walk(c, 0, true, prev_len as int, None, max_depth as int, MK { sp, max_len, hop0: min2(to_start, md), hop1: min2(to_start, md - 1), nice, d3: e.p.max_dist_3_matches as int, depth: max_depth }, e.text)
                },
            }
        }
    }
}
/// the two probes the predictor uses (formerly uninterpreted)
#[verifier::opaque]
pub open spec fn sp_match0(hv: int, prev_len: u32, max_depth: u32, e: Env, pos: int) -> MatchResult { sp_match(0, sp_chain(hv, e, pos), prev_len, max_depth, e, pos) }
#[verifier::opaque]
pub open spec fn sp_match1(hv: int, prev_len: u32, max_depth: u32, e: Env, pos: int) -> MatchResult { sp_match(1, sp_chain1(hv, e, pos), prev_len, max_depth, e, pos) }
