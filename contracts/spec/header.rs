// ---- FROZEN FORMAT of the parameter header (C04/C08), shared by U4 (write/read) and U24 (API bodies) ----
// ---- FROZEN FORMAT (C04/C08): field order, widths and enum codes of the parameter header ----
pub open spec fn hash_id(h: HashAlgorithm) -> u16 {
    match h {
        HashAlgorithm::None => 0, HashAlgorithm::Zlib { hash_mask, hash_shift } => 1, HashAlgorithm::MiniZFast => 2,
        HashAlgorithm::Libdeflate4 => 3, HashAlgorithm::Libdeflate4Fast => 4, HashAlgorithm::ZlibNG => 5,
        HashAlgorithm::RandomVector => 6, HashAlgorithm::Crc32cHash => 7,
    }
}
pub open spec fn strategy_id(s: PreflateStrategy) -> u16 {
    match s { PreflateStrategy::Default => 0, PreflateStrategy::RleOnly => 1, PreflateStrategy::HuffOnly => 2, PreflateStrategy::Store => 3 }
}
pub open spec fn huff_id(s: PreflateHuffStrategy) -> u16 {
    match s { PreflateHuffStrategy::Dynamic => 0, PreflateHuffStrategy::Mixed => 1, PreflateHuffStrategy::Static => 2 }
}
pub open spec fn b2u(b: bool) -> u16 { if b { 1 } else { 0 } }
pub open spec fn good_of(m: MatchingType) -> u16 { match m { MatchingType::Greedy => 0, MatchingType::Lazy { good_length, max_lazy } => good_length } }
pub open spec fn lazy_of(m: MatchingType) -> u16 { match m { MatchingType::Greedy => 0, MatchingType::Lazy { good_length, max_lazy } => max_lazy } }
pub open spec fn policy_id(a: DictionaryAddPolicy) -> u16 {
    match a {
        DictionaryAddPolicy::AddAll => 0, DictionaryAddPolicy::AddFirst(v) => 1, DictionaryAddPolicy::AddFirstAndLast(v) => 2,
        DictionaryAddPolicy::AddFirstExcept4kBoundary => 3, DictionaryAddPolicy::AddFirstWith32KBoundary => 4,
    }
}

pub open spec fn hash_ops(h: HashAlgorithm) -> Seq<Op> {
    match h {
        HashAlgorithm::Zlib { hash_mask, hash_shift } => seq![Op::Value(1, 4), Op::Value(hash_shift as u16, 8), Op::Value(hash_mask, 16)],
        _ => seq![Op::Value(hash_id(h), 4)],
    }
}
pub open spec fn policy_ops(a: DictionaryAddPolicy) -> Seq<Op> {
    match a {
        DictionaryAddPolicy::AddFirst(v) => seq![Op::Value(1, 3), Op::Value(v, 8)],
        DictionaryAddPolicy::AddFirstAndLast(v) => seq![Op::Value(2, 3), Op::Value(v, 8)],
        _ => seq![Op::Value(policy_id(a), 3)],
    }
}
pub open spec fn header_ops(p: PreflateParameters) -> Seq<Op> {
    let t = p.predictor;
    seq![Op::Value(1, 8), Op::Value(strategy_id(t.strategy), 4), Op::Value(huff_id(p.huff_strategy), 4),
         Op::Value(b2u(t.zlib_compatible), 1), Op::Value(t.window_bits as u16, 8)]
    + hash_ops(t.hash_algorithm)
    + seq![Op::Value(t.max_token_count, 16), Op::Value(t.max_dist_3_matches, 16), Op::Value(b2u(t.very_far_matches_detected), 1),
           Op::Value(b2u(t.matches_to_start_detected), 1), Op::Value(good_of(t.matching_type), 16), Op::Value(lazy_of(t.matching_type), 16),
           Op::Value(t.nice_length as u16, 16), Op::Value(t.max_chain as u16, 16), Op::Value(t.min_len as u16, 16)]
    + policy_ops(t.add_policy)
}

/// the same header as successive pushes (the shape in which the encoder relation is extended)
pub open spec fn hash_push(o: Seq<Op>, h: HashAlgorithm) -> Seq<Op> {
    match h {
        HashAlgorithm::Zlib { hash_mask, hash_shift } => o.push(Op::Value(1, 4)).push(Op::Value(hash_shift as u16, 8)).push(Op::Value(hash_mask, 16)),
        _ => o.push(Op::Value(hash_id(h), 4)),
    }
}
pub open spec fn policy_push(o: Seq<Op>, a: DictionaryAddPolicy) -> Seq<Op> {
    match a {
        DictionaryAddPolicy::AddFirst(v) => o.push(Op::Value(1, 3)).push(Op::Value(v, 8)),
        DictionaryAddPolicy::AddFirstAndLast(v) => o.push(Op::Value(2, 3)).push(Op::Value(v, 8)),
        _ => o.push(Op::Value(policy_id(a), 3)),
    }
}
pub open spec fn header_push(o: Seq<Op>, p: PreflateParameters) -> Seq<Op> {
    let t = p.predictor;
    let o1 = o.push(Op::Value(1, 8)).push(Op::Value(strategy_id(t.strategy), 4)).push(Op::Value(huff_id(p.huff_strategy), 4))
        .push(Op::Value(b2u(t.zlib_compatible), 1)).push(Op::Value(t.window_bits as u16, 8));
    let o2 = hash_push(o1, t.hash_algorithm);
    let o3 = o2.push(Op::Value(t.max_token_count, 16)).push(Op::Value(t.max_dist_3_matches, 16)).push(Op::Value(b2u(t.very_far_matches_detected), 1))
        .push(Op::Value(b2u(t.matches_to_start_detected), 1)).push(Op::Value(good_of(t.matching_type), 16)).push(Op::Value(lazy_of(t.matching_type), 16))
        .push(Op::Value(t.nice_length as u16, 16)).push(Op::Value(t.max_chain as u16, 16)).push(Op::Value(t.min_len as u16, 16));
    policy_push(o3, t.add_policy)
}

#[verifier::rlimit(60)]
pub proof fn lemma_header_push(o: Seq<Op>, p: PreflateParameters)
    ensures header_push(o, p) == o + header_ops(p), 15 <= header_ops(p).len() <= 19,
{
    assert(header_push(o, p) =~= o + header_ops(p));
}

/// the header of p sits in `all` at position b
pub open spec fn header_at(all: Seq<Op>, b: int, p: PreflateParameters) -> bool {
    0 <= b && b + header_ops(p).len() <= all.len() && all.subrange(b, b + header_ops(p).len()) == header_ops(p)
}

pub broadcast proof fn lemma_skip1(s: Seq<Op>, k: int)
    requires 0 <= k < s.len(),
    ensures #[trigger] s.skip(k).skip(1) == s.skip(k + 1), s.skip(k)[0] == s[k],
{
    assert(s.skip(k).skip(1) =~= s.skip(k + 1));
}

/// position-wise view of the header (used by the reader's proof)
pub proof fn lemma_header_at(p: PreflateParameters, rest: Seq<Op>)
    ensures ({
        let t = p.predictor; let all = header_ops(p) + rest;
        let hz = t.hash_algorithm is Zlib;
        let k: int = if hz { 8 } else { 6 };
        &&& all[0] == Op::Value(1, 8) && all[1] == Op::Value(strategy_id(t.strategy), 4) && all[2] == Op::Value(huff_id(p.huff_strategy), 4)
        &&& all[3] == Op::Value(b2u(t.zlib_compatible), 1) && all[4] == Op::Value(t.window_bits as u16, 8)
        &&& all[5] == Op::Value(hash_id(t.hash_algorithm), 4)
        &&& (hz ==> all[6] == Op::Value(t.hash_algorithm->Zlib_hash_shift as u16, 8) && all[7] == Op::Value(t.hash_algorithm->Zlib_hash_mask, 16))
        &&& all[k] == Op::Value(t.max_token_count, 16) && all[k + 1] == Op::Value(t.max_dist_3_matches, 16)
        &&& all[k + 2] == Op::Value(b2u(t.very_far_matches_detected), 1) && all[k + 3] == Op::Value(b2u(t.matches_to_start_detected), 1)
        &&& all[k + 4] == Op::Value(good_of(t.matching_type), 16) && all[k + 5] == Op::Value(lazy_of(t.matching_type), 16)
        &&& all[k + 6] == Op::Value(t.nice_length as u16, 16) && all[k + 7] == Op::Value(t.max_chain as u16, 16)
        &&& all[k + 8] == Op::Value(t.min_len as u16, 16) && all[k + 9] == Op::Value(policy_id(t.add_policy), 3)
        &&& (t.add_policy matches DictionaryAddPolicy::AddFirst(v) ==> all[k + 10] == Op::Value(v, 8) && all.skip(k + 11) == rest && header_ops(p).len() == k + 11)
        &&& (t.add_policy matches DictionaryAddPolicy::AddFirstAndLast(v) ==> all[k + 10] == Op::Value(v, 8) && all.skip(k + 11) == rest && header_ops(p).len() == k + 11)
        &&& (!(t.add_policy is AddFirst) && !(t.add_policy is AddFirstAndLast) ==> all.skip(k + 10) == rest && header_ops(p).len() == k + 10)
    }),
{
    let t = p.predictor; let all = header_ops(p) + rest;
    let hz = t.hash_algorithm is Zlib;
    let k: int = if hz { 8 } else { 6 };
    if t.add_policy is AddFirst || t.add_policy is AddFirstAndLast {
        assert(all.skip(k + 11) =~= rest);
    } else {
        assert(all.skip(k + 10) =~= rest);
    }
}

/// INVERSE LAW (C08): a header that fits is determined by its operations
pub proof fn lemma_header_inj(p: PreflateParameters, q: PreflateParameters, r1: Seq<Op>, r2: Seq<Op>)
    requires fits(p), fits(q), header_ops(p) + r1 == header_ops(q) + r2,
    ensures p == q, r1 == r2,
{
    lemma_header_at(p, r1);
    lemma_header_at(q, r2);
    lemma_frozen_enum_codes();
}

/// THEOREM C08(a): parameters that fit are read back exactly -- whatever header a decoder finds at a position where
/// the header of p was written is p
pub proof fn theorem_c08_header_roundtrip(all: Seq<Op>, b: int, p: PreflateParameters, q: PreflateParameters)
    requires fits(p), fits(q), header_at(all, b, p), header_at(all, b, q),
    ensures p == q,
{
    let rp = all.skip(b + header_ops(p).len());
    let rq = all.skip(b + header_ops(q).len());
    assert(all.skip(b) =~= header_ops(p) + rp);
    assert(all.skip(b) =~= header_ops(q) + rq);
    lemma_header_inj(p, q, rp, rq);
}

/// FROZEN FORMAT (C04) and justification of rewrite R10: the enum discriminants written by `write` (`x as u16`)
pub proof fn lemma_frozen_enum_codes()
    ensures
        PreflateStrategy::Default as int == 0, PreflateStrategy::RleOnly as int == 1,
        PreflateStrategy::HuffOnly as int == 2, PreflateStrategy::Store as int == 3,
        PreflateHuffStrategy::Dynamic as int == 0, PreflateHuffStrategy::Mixed as int == 1, PreflateHuffStrategy::Static as int == 2,
        forall|s: PreflateStrategy| s as int == strategy_id(s) as int,
        forall|s: PreflateHuffStrategy| s as int == huff_id(s) as int,
{}
