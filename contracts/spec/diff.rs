// ---- signed difference coding of cabac_codec::{encode_difference, decode_difference} ----
pub open spec fn ediff(p: u32, a: u32) -> u32 { if p >= a { ((p - a) * 2) as u32 } else { ((a - p) * 2 + 1) as u32 } }
pub open spec fn ddiff(p: u32, e: u32) -> int { if e % 2 == 0 { p - e / 2 } else { p + e / 2 } }
pub proof fn lemma_diff_inverse(p: u32, a: u32)
    requires p < 0x4000_0000, a < 0x4000_0000,
    ensures ddiff(p, ediff(p, a)) == a,
{}
