// the codec is used only through the trait contracts of unit U3b; the cell-history view is abstract here
pub struct HistV { pub x: int }
pub enum Op { Value(u16, u8), Mis(int, bool), Corr(int, u32) }
pub open spec fn ops_limit() -> nat { 0x0FFF_FFF0 }
pub open spec fn is_value(op: Op, nb: u8) -> bool { op matches Op::Value(v, n) && n == nb }
pub open spec fn value_of(op: Op) -> u16 { match op { Op::Value(v, n) => v, _ => 0 } }
pub open spec fn is_mis(op: Op, c: int) -> bool { op matches Op::Mis(k, b) && k == c }
pub open spec fn mis_of(op: Op) -> bool { match op { Op::Mis(k, b) => b, _ => false } }
pub open spec fn is_corr(op: Op, c: int) -> bool { op matches Op::Corr(k, v) && k == c }
pub open spec fn corr_of(op: Op) -> u32 { match op { Op::Corr(k, v) => v, _ => 0 } }
