// ---- (verified) arithmetic of bit sequences: MSB-first bit strings of a number and their value ----
use vstd::arithmetic::power2::*;
use vstd::arithmetic::div_mod::*;
use vstd::bits::*;

pub open spec fn bit_of(x: nat, i: nat) -> bool { (x / pow2(i)) % 2 == 1 }

/// value of an MSB-first bit string (Horner)
pub open spec fn val_of_bits(bs: Seq<bool>) -> nat
    decreases bs.len()
{
    if bs.len() == 0 { 0 } else { 2 * val_of_bits(bs.drop_last()) + (if bs.last() { 1nat } else { 0nat }) }
}

/// the low nb bits of x, most significant first
pub open spec fn msb_bits(x: nat, nb: nat) -> Seq<bool> {
    Seq::new(nb, |t: int| bit_of(x, (nb - 1 - t) as nat))
}

pub proof fn lemma_pow2_le(a: nat, b: nat)
    requires a <= b,
    ensures pow2(a) <= pow2(b),
    decreases b - a
{
    if a < b { lemma_pow2_strictly_increases(a, b); }
}

pub proof fn lemma_bit_of_half(x: nat, i: nat)
    ensures bit_of(x, i + 1) == bit_of(x / 2, i),
{
    lemma_pow2_unfold(i + 1);
    lemma_pow2_pos(i);
    lemma_div_denominator(x as int, 2, pow2(i) as int);
    assert(pow2(i + 1) == 2 * pow2(i));
    assert(x as int / (2 * pow2(i) as int) == (x as int / 2) / pow2(i) as int);
}

/// INVERSE LAW (bits): the value of the low nb bits of x, MSB first, is x mod 2^nb
pub proof fn lemma_val_msb_bits(x: nat, nb: nat)
    ensures val_of_bits(msb_bits(x, nb)) == x % pow2(nb),
    decreases nb
{
    lemma_pow2_pos(nb);
    if nb == 0 {
        lemma2_to64();
    } else {
        let bs = msb_bits(x, nb);
        assert(bs.drop_last() =~= msb_bits(x / 2, (nb - 1) as nat)) by {
            assert forall|t: int| 0 <= t < nb - 1 implies bs[t] == msb_bits(x / 2, (nb - 1) as nat)[t] by {
                lemma_bit_of_half(x, (nb - 2 - t) as nat);
            }
        }
        lemma_val_msb_bits(x / 2, (nb - 1) as nat);
        assert(bs.last() == bit_of(x, 0));
        lemma2_to64();
        assert(bit_of(x, 0) == (x % 2 == 1));
        lemma_pow2_unfold(nb);
        lemma_pow2_pos((nb - 1) as nat);
        let m = pow2((nb - 1) as nat) as int;
        lemma_mod_breakdown(x as int, 2, m);
        assert(x as int % (2 * m) == 2 * ((x as int / 2) % m) + x as int % 2);
    }
}

pub proof fn lemma_val_bound(bs: Seq<bool>)
    ensures val_of_bits(bs) < pow2(bs.len()),
    decreases bs.len()
{
    if bs.len() == 0 { lemma2_to64(); } else {
        lemma_val_bound(bs.drop_last());
        lemma_pow2_unfold(bs.len());
    }
}

pub proof fn lemma_bit_test_u64(bits: u64, i: u64)
    requires i < 64,
    ensures ((bits & (1u64 << i)) != 0) == bit_of(bits as nat, i as nat),
{
    assert(((bits & (1u64 << i)) != 0) == (((bits >> i) & 1) == 1)) by (bit_vector) requires i < 64;
    lemma_u64_shr_is_div(bits, i);
    let y = bits >> i;
    assert((y & 1 == 1) == (y % 2 == 1)) by (bit_vector);
}

pub proof fn lemma_bit_test_u32(value: u32, i: u32)
    requires i < 32,
    ensures (((value >> i) & 1) == 1) == bit_of(value as nat, i as nat),
{
    lemma_u32_shr_is_div(value, i);
    let y = value >> i;
    assert((y & 1 == 1) == (y % 2 == 1)) by (bit_vector);
}

pub proof fn lemma_or_shift(coef: u64, b: bool, i: u64)
    requires i < 63, coef as nat % pow2((i + 1) as nat) == 0,
    ensures (coef | ((b as u64) << i)) as nat == coef as nat + (if b { pow2(i as nat) } else { 0 }),
{
    lemma2_to64_rest();
    lemma2_to64();
    lemma_pow2_le((i + 1) as nat, 63);
    lemma_pow2_le(i as nat, 63);
    lemma_u64_low_bits_mask_is_mod(coef, (i + 1) as nat);
    lemma_u64_shl_is_mul(1, (i + 1) as u64);
    let m: u64 = ((1u64 << ((i + 1) as u64)) - 1) as u64;
    assert(m as nat == low_bits_mask((i + 1) as nat));
    assert(coef & m == 0);
    let bv: u64 = b as u64;
    assert((coef | (bv << i)) == coef + (bv << i)) by (bit_vector)
        requires coef & m == 0, m == ((1u64 << ((i + 1) as u64)) - 1) as u64, i < 63, bv <= 1;
    lemma_u64_shl_is_mul(bv, i);
}

// ---- LSB-first bit strings (DEFLATE packs bits starting at the least significant bit of each byte) ----
pub open spec fn lsb_bits(x: nat, n: nat) -> Seq<bool> { Seq::new(n, |i: int| bit_of(x, i as nat)) }

pub open spec fn bytes_bits(b: Seq<u8>) -> Seq<bool> {
    Seq::new(8 * b.len(), |i: int| bit_of(b[i / 8] as nat, (i % 8) as nat))
}

pub proof fn lemma_bit_of_add(x: nat, y: nat, k: nat, i: nat)
    requires x < pow2(k),
    ensures bit_of(x + y * pow2(k), i) == (if i < k { bit_of(x, i) } else { bit_of(y, (i - k) as nat) }),
    decreases i
{
    lemma2_to64();
    lemma_pow2_pos(k);
    let z = x + y * pow2(k);
    if k == 0 {
        assert(x == 0);
        assert(y * pow2(0) == y) by (nonlinear_arith) requires pow2(0) == 1;
    } else {
        lemma_pow2_unfold(k);
        let pk1 = pow2((k - 1) as nat);
        assert(y * pow2(k) == 2 * (y * pk1)) by (nonlinear_arith) requires pow2(k) == 2 * pk1;
        if i == 0 {
            assert(pow2(0) == 1);
            assert(z / 1 == z && x / 1 == x);
            assert(bit_of(z, 0) == ((z / pow2(0)) % 2 == 1));
            assert(bit_of(x, 0) == ((x / pow2(0)) % 2 == 1));
            assert(bit_of(z, 0) == (z % 2 == 1));
            assert(bit_of(x, 0) == (x % 2 == 1));
        } else {
            lemma_bit_of_half(z, (i - 1) as nat);
            lemma_bit_of_half(x, (i - 1) as nat);
            assert(z / 2 == x / 2 + y * pk1);
            assert(x / 2 < pk1);
            lemma_bit_of_add(x / 2, y, (k - 1) as nat, (i - 1) as nat);
        }
    }
}

/// appending the low n bits of y after the k bits of x (x < 2^k)
pub proof fn lemma_lsb_bits_add(x: nat, y: nat, k: nat, n: nat)
    requires x < pow2(k),
    ensures lsb_bits(x + y * pow2(k), k + n) == lsb_bits(x, k) + lsb_bits(y, n),
{
    let z = x + y * pow2(k);
    assert forall|i: int| 0 <= i < k + n implies lsb_bits(z, k + n)[i] == (lsb_bits(x, k) + lsb_bits(y, n))[i] by {
        lemma_bit_of_add(x, y, k, i as nat);
    }
    assert(lsb_bits(z, k + n) =~= lsb_bits(x, k) + lsb_bits(y, n));
}

pub proof fn lemma_bit_of_small(x: nat, k: nat, i: nat)
    requires x < pow2(k), i >= k,
    ensures !bit_of(x, i),
{
    lemma_pow2_le(k, i);
    lemma_pow2_pos(i);
    vstd::arithmetic::div_mod::lemma_basic_div(x as int, pow2(i) as int);
}

/// taking one byte off an LSB-first bit string
pub proof fn lemma_lsb_split8(x: nat, n: nat)
    requires n >= 8,
    ensures lsb_bits(x, n) == lsb_bits(x % 256, 8) + lsb_bits(x / 256, (n - 8) as nat),
{
    lemma2_to64();
    let lo = x % 256; let hi = x / 256;
    assert(x == lo + hi * pow2(8)) by { assert(pow2(8) == 256); }
    lemma_lsb_bits_add(lo, hi, 8, (n - 8) as nat);
}

pub proof fn lemma_bytes_bits_push(b: Seq<u8>, v: u8)
    ensures bytes_bits(b.push(v)) == bytes_bits(b) + lsb_bits(v as nat, 8),
{
    assert(bytes_bits(b.push(v)) =~= bytes_bits(b) + lsb_bits(v as nat, 8)) by {
        assert forall|i: int| 0 <= i < 8 * (b.len() + 1) implies bytes_bits(b.push(v))[i] == (bytes_bits(b) + lsb_bits(v as nat, 8))[i] by {
            if i < 8 * b.len() { assert(b.push(v)[i / 8] == b[i / 8]); } else { assert(i / 8 == b.len()); assert(i % 8 == i - 8 * b.len()); }
        }
    }
}

/// u32: or-ing a left-shifted value onto a buffer that holds fewer bits is an addition
pub proof fn lemma_or_shift_u32(buffer: u32, bits: u32, k: u32, len: u32)
    requires k < 32, k + len <= 32, (buffer as nat) < pow2(k as nat), (bits as nat) < pow2(len as nat),
    ensures (buffer | (bits << k)) as nat == buffer as nat + bits as nat * pow2(k as nat),
        (buffer as nat + bits as nat * pow2(k as nat)) < pow2((k + len) as nat),
{
    lemma2_to64(); lemma2_to64_rest();
    lemma_pow2_le((k + len) as nat, 32);
    lemma_pow2_adds(k as nat, len as nat);
    lemma_pow2_pos(k as nat);
    let pk = pow2(k as nat); let pl = pow2(len as nat);
    assert((bits as nat) * pk <= (pl - 1) * pk) by (nonlinear_arith) requires (bits as nat) < pl, pk > 0;
    assert((pl - 1) * pk == pl * pk - pk) by (nonlinear_arith);
    assert(pk * pl == pl * pk) by (nonlinear_arith);
    assert(bits as nat * pk <= u32::MAX);
    lemma_u32_shl_is_mul(bits, k);
    lemma_u32_shl_is_mul(1, k);
    let m: u32 = (1u32 << k);
    assert(m as nat == pk);
    let sh: u32 = bits << k;
    lemma_u32_shr_is_div(sh, k);
    assert(sh as nat == bits as nat * pk);
    assert((bits as int * pk as int) / (pk as int) == bits as int) by (nonlinear_arith) requires pk > 0;
    assert((sh >> k) == bits);
    assert((buffer | sh) == buffer + sh) by (bit_vector) requires buffer < m, m == (1u32 << k), sh == bits << k, k < 32, (sh >> k) == bits;
}

pub proof fn lemma_bytes_bits_concat(a: Seq<u8>, b: Seq<u8>)
    ensures bytes_bits(a + b) == bytes_bits(a) + bytes_bits(b),
    decreases b.len()
{
    if b.len() == 0 {
        assert(a + b =~= a);
        assert(bytes_bits(a) + bytes_bits(b) =~= bytes_bits(a));
    } else {
        let b0 = b.drop_last();
        lemma_bytes_bits_concat(a, b0);
        assert(a + b =~= (a + b0).push(b.last()));
        assert(b =~= b0.push(b.last()));
        lemma_bytes_bits_push(a + b0, b.last());
        lemma_bytes_bits_push(b0, b.last());
        assert(bytes_bits(a) + bytes_bits(b0) + lsb_bits(b.last() as nat, 8) =~= bytes_bits(a) + (bytes_bits(b0) + lsb_bits(b.last() as nat, 8)));
    }
}
/// a 16-bit value written as two little-endian bytes
pub proof fn lemma_bytes_bits_u16(x: u16)
    ensures bytes_bits(seq![(x % 256) as u8, (x / 256) as u8]) == lsb_bits(x as nat, 16),
{
    lemma2_to64();
    let lo = (x % 256) as u8; let hi = (x / 256) as u8;
    lemma_lsb_split8(x as nat, 16);
    lemma_bytes_bits_push(seq![lo], hi);
    lemma_bytes_bits_push(Seq::<u8>::empty(), lo);
    assert(Seq::<u8>::empty().push(lo) =~= seq![lo]);
    assert(seq![lo].push(hi) =~= seq![lo, hi]);
    assert(bytes_bits(Seq::<u8>::empty()) =~= Seq::<bool>::empty());
    assert(bytes_bits(seq![lo, hi]) =~= lsb_bits(lo as nat, 8) + lsb_bits(hi as nat, 8));
}

/// bytes_bits is injective
pub proof fn lemma_bytes_bits_inj(a: Seq<u8>, b: Seq<u8>)
    requires bytes_bits(a) == bytes_bits(b),
    ensures a == b,
{
    assert(a.len() == b.len()) by { assert(bytes_bits(a).len() == 8 * a.len()); assert(bytes_bits(b).len() == 8 * b.len()); }
    assert forall|i: int| 0 <= i < a.len() implies a[i] == b[i] by {
        assert forall|j: nat| j < 8 implies bit_of(a[i] as nat, j) == bit_of(b[i] as nat, j) by {
            let k = 8 * i + j as int;
            assert(bytes_bits(a)[k] == bit_of(a[k / 8] as nat, (k % 8) as nat));
            assert(bytes_bits(b)[k] == bit_of(b[k / 8] as nat, (k % 8) as nat));
            assert(k / 8 == i && k % 8 == j as int);
        }
        lemma_u8_bits_inj(a[i], b[i]);
    }
    assert(a =~= b);
}
pub proof fn lemma_u8_bits_inj(x: u8, y: u8)
    requires forall|j: nat| j < 8 ==> bit_of(x as nat, j) == bit_of(y as nat, j),
    ensures x == y,
{
    let xx = x as u32; let yy = y as u32;
    lemma_bit_test_u32(xx, 0); lemma_bit_test_u32(yy, 0); lemma_bit_test_u32(xx, 1); lemma_bit_test_u32(yy, 1);
    lemma_bit_test_u32(xx, 2); lemma_bit_test_u32(yy, 2); lemma_bit_test_u32(xx, 3); lemma_bit_test_u32(yy, 3);
    lemma_bit_test_u32(xx, 4); lemma_bit_test_u32(yy, 4); lemma_bit_test_u32(xx, 5); lemma_bit_test_u32(yy, 5);
    lemma_bit_test_u32(xx, 6); lemma_bit_test_u32(yy, 6); lemma_bit_test_u32(xx, 7); lemma_bit_test_u32(yy, 7);
    assert(bit_of(x as nat, 0) == bit_of(y as nat, 0)); assert(bit_of(x as nat, 1) == bit_of(y as nat, 1));
    assert(bit_of(x as nat, 2) == bit_of(y as nat, 2)); assert(bit_of(x as nat, 3) == bit_of(y as nat, 3));
    assert(bit_of(x as nat, 4) == bit_of(y as nat, 4)); assert(bit_of(x as nat, 5) == bit_of(y as nat, 5));
    assert(bit_of(x as nat, 6) == bit_of(y as nat, 6)); assert(bit_of(x as nat, 7) == bit_of(y as nat, 7));
    assert(xx == yy) by (bit_vector)
        requires xx < 256, yy < 256,
            ((xx >> 0) & 1) == ((yy >> 0) & 1) || (((xx >> 0) & 1) != 1 && ((yy >> 0) & 1) != 1),
            ((xx >> 1) & 1) == ((yy >> 1) & 1) || (((xx >> 1) & 1) != 1 && ((yy >> 1) & 1) != 1),
            ((xx >> 2) & 1) == ((yy >> 2) & 1) || (((xx >> 2) & 1) != 1 && ((yy >> 2) & 1) != 1),
            ((xx >> 3) & 1) == ((yy >> 3) & 1) || (((xx >> 3) & 1) != 1 && ((yy >> 3) & 1) != 1),
            ((xx >> 4) & 1) == ((yy >> 4) & 1) || (((xx >> 4) & 1) != 1 && ((yy >> 4) & 1) != 1),
            ((xx >> 5) & 1) == ((yy >> 5) & 1) || (((xx >> 5) & 1) != 1 && ((yy >> 5) & 1) != 1),
            ((xx >> 6) & 1) == ((yy >> 6) & 1) || (((xx >> 6) & 1) != 1 && ((yy >> 6) & 1) != 1),
            ((xx >> 7) & 1) == ((yy >> 7) & 1) || (((xx >> 7) & 1) != 1 && ((yy >> 7) & 1) != 1);
}
