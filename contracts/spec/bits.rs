// ---- (verified) arithmetic of bit sequences: MSB-first bit strings of a number and their value ----
use vstd::arithmetic::power2::*;
use vstd::arithmetic::div_mod::*;
use vstd::bits::*;

pub open spec fn bit_of(x: nat, i: nat) -> bool { (x / pow2(i)) % 2 == 1 }

/// value of an MSB-first bit string (Horner)
pub open spec fn val_of_bits(bs: Seq<bool>) -> nat
    decreases bs.len()
{
    if bs.len() == 0 { 0 } else { 2 * val_of_bits(bs.drop_last()) + (if bs.last() { 1nat } else { 0nat }) }
}

/// the low nb bits of x, most significant first
pub open spec fn msb_bits(x: nat, nb: nat) -> Seq<bool> {
    Seq::new(nb, |t: int| bit_of(x, (nb - 1 - t) as nat))
}

pub proof fn lemma_pow2_le(a: nat, b: nat)
    requires a <= b,
    ensures pow2(a) <= pow2(b),
    decreases b - a
{
    if a < b { lemma_pow2_strictly_increases(a, b); }
}

pub proof fn lemma_bit_of_half(x: nat, i: nat)
    ensures bit_of(x, i + 1) == bit_of(x / 2, i),
{
    lemma_pow2_unfold(i + 1);
    lemma_pow2_pos(i);
    lemma_div_denominator(x as int, 2, pow2(i) as int);
    assert(pow2(i + 1) == 2 * pow2(i));
    assert(x as int / (2 * pow2(i) as int) == (x as int / 2) / pow2(i) as int);
}

/// INVERSE LAW (bits): the value of the low nb bits of x, MSB first, is x mod 2^nb
pub proof fn lemma_val_msb_bits(x: nat, nb: nat)
    ensures val_of_bits(msb_bits(x, nb)) == x % pow2(nb),
    decreases nb
{
    lemma_pow2_pos(nb);
    if nb == 0 {
        lemma2_to64();
    } else {
        let bs = msb_bits(x, nb);
        assert(bs.drop_last() =~= msb_bits(x / 2, (nb - 1) as nat)) by {
            assert forall|t: int| 0 <= t < nb - 1 implies bs[t] == msb_bits(x / 2, (nb - 1) as nat)[t] by {
                lemma_bit_of_half(x, (nb - 2 - t) as nat);
            }
        }
        lemma_val_msb_bits(x / 2, (nb - 1) as nat);
        assert(bs.last() == bit_of(x, 0));
        lemma2_to64();
        assert(bit_of(x, 0) == (x % 2 == 1));
        lemma_pow2_unfold(nb);
        lemma_pow2_pos((nb - 1) as nat);
        let m = pow2((nb - 1) as nat) as int;
        lemma_mod_breakdown(x as int, 2, m);
        assert(x as int % (2 * m) == 2 * ((x as int / 2) % m) + x as int % 2);
    }
}

pub proof fn lemma_val_bound(bs: Seq<bool>)
    ensures val_of_bits(bs) < pow2(bs.len()),
    decreases bs.len()
{
    if bs.len() == 0 { lemma2_to64(); } else {
        lemma_val_bound(bs.drop_last());
        lemma_pow2_unfold(bs.len());
    }
}

pub proof fn lemma_bit_test_u64(bits: u64, i: u64)
    requires i < 64,
    ensures ((bits & (1u64 << i)) != 0) == bit_of(bits as nat, i as nat),
{
    assert(((bits & (1u64 << i)) != 0) == (((bits >> i) & 1) == 1)) by (bit_vector) requires i < 64;
    lemma_u64_shr_is_div(bits, i);
    let y = bits >> i;
    assert((y & 1 == 1) == (y % 2 == 1)) by (bit_vector);
}

pub proof fn lemma_bit_test_u32(value: u32, i: u32)
    requires i < 32,
    ensures (((value >> i) & 1) == 1) == bit_of(value as nat, i as nat),
{
    lemma_u32_shr_is_div(value, i);
    let y = value >> i;
    assert((y & 1 == 1) == (y % 2 == 1)) by (bit_vector);
}

pub proof fn lemma_or_shift(coef: u64, b: bool, i: u64)
    requires i < 63, coef as nat % pow2((i + 1) as nat) == 0,
    ensures (coef | ((b as u64) << i)) as nat == coef as nat + (if b { pow2(i as nat) } else { 0 }),
{
    lemma2_to64_rest();
    lemma2_to64();
    lemma_pow2_le((i + 1) as nat, 63);
    lemma_pow2_le(i as nat, 63);
    lemma_u64_low_bits_mask_is_mod(coef, (i + 1) as nat);
    lemma_u64_shl_is_mul(1, (i + 1) as u64);
    let m: u64 = ((1u64 << ((i + 1) as u64)) - 1) as u64;
    assert(m as nat == low_bits_mask((i + 1) as nat));
    assert(coef & m == 0);
    let bv: u64 = b as u64;
    assert((coef | (bv << i)) == coef + (bv << i)) by (bit_vector)
        requires coef & m == 0, m == ((1u64 << ((i + 1) as u64)) - 1) as u64, i < 63, bv <= 1;
    lemma_u64_shl_is_mul(bv, i);
}
