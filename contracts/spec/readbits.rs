// ---- reader-side glue for LSB-first bit strings (U12, U13) ----
/// the reader delivered the value v made of the next n bits: `before` = bits of v (LSB first) followed by `after`
pub open spec fn got_bits(before: Seq<bool>, after: Seq<bool>, v: u32, n: u32) -> bool {
    &&& n <= 32 && (v as nat) < pow2(n as nat)
    &&& before == lsb_bits(v as nat, n as nat) + after
}

pub proof fn lemma_bytes_bits_cons(v: u8, rest: Seq<u8>)
    ensures bytes_bits(seq![v] + rest) == lsb_bits(v as nat, 8) + bytes_bits(rest),
{
    let l = seq![v] + rest;
    assert(bytes_bits(l) =~= lsb_bits(v as nat, 8) + bytes_bits(rest)) by {
        assert forall|i: int| 0 <= i < 8 * l.len() implies bytes_bits(l)[i] == (lsb_bits(v as nat, 8) + bytes_bits(rest))[i] by {
            if i < 8 { assert(i / 8 == 0); assert(i % 8 == i); } else {
                assert(l[i / 8] == rest[i / 8 - 1]);
                assert((i - 8) / 8 == i / 8 - 1);
                assert((i - 8) % 8 == i % 8);
            }
        }
    }
}

pub proof fn lemma_bytes_bits_skip(b: Seq<u8>)
    requires b.len() >= 1,
    ensures bytes_bits(b) == lsb_bits(b[0] as nat, 8) + bytes_bits(b.skip(1)),
{
    assert(b =~= seq![b[0]] + b.skip(1));
    lemma_bytes_bits_cons(b[0], b.skip(1));
}

/// taking k bits off the front of an n-bit LSB-first string
pub proof fn lemma_lsb_split(x: nat, k: nat, n: nat)
    requires k <= n,
    ensures lsb_bits(x, n) == lsb_bits(x % pow2(k), k) + lsb_bits(x / pow2(k), (n - k) as nat),
{
    lemma_pow2_pos(k);
    let lo = x % pow2(k); let hi = x / pow2(k);
    vstd::arithmetic::div_mod::lemma_fundamental_div_mod(x as int, pow2(k) as int);
    assert(x == lo + hi * pow2(k)) by (nonlinear_arith) requires x == pow2(k) * hi + lo;
    vstd::arithmetic::div_mod::lemma_mod_bound(x as int, pow2(k) as int);
    lemma_lsb_bits_add(lo, hi, k, (n - k) as nat);
}

/// u32 mask/shift facts of BitReader::get
pub proof fn lemma_take_bits_u32(x: u32, k: u32)
    requires 1 <= k <= 8,
    ensures (x & !(u32::MAX << k)) as nat == x as nat % pow2(k as nat), (x >> k) as nat == x as nat / pow2(k as nat),
{
    lemma2_to64();
    lemma_pow2_le(k as nat, 8);
    vstd::bits::lemma_u32_shl_is_mul(1, k);
    let p: u32 = 1u32 << k;
    assert(p as nat == pow2(k as nat));
    assert((x & !(0xffff_ffffu32 << k)) == x % (1u32 << k)) by (bit_vector) requires 1 <= k <= 8;
    assert((x >> k) == x / (1u32 << k)) by (bit_vector) requires 1 <= k <= 8;
}
