// ---- reader-side glue for LSB-first bit strings (U12, U13) ----
/// the reader delivered the value v made of the next n bits: `before` = bits of v (LSB first) followed by `after`
pub open spec fn got_bits(before: Seq<bool>, after: Seq<bool>, v: u32, n: u32) -> bool {
    &&& n <= 32 && (v as nat) < pow2(n as nat)
    &&& before == lsb_bits(v as nat, n as nat) + after
}

pub proof fn lemma_bytes_bits_cons(v: u8, rest: Seq<u8>)
    ensures bytes_bits(seq![v] + rest) == lsb_bits(v as nat, 8) + bytes_bits(rest),
{
    let l = seq![v] + rest;
    assert(bytes_bits(l) =~= lsb_bits(v as nat, 8) + bytes_bits(rest)) by {
        assert forall|i: int| 0 <= i < 8 * l.len() implies bytes_bits(l)[i] == (lsb_bits(v as nat, 8) + bytes_bits(rest))[i] by {
            if i < 8 { assert(i / 8 == 0); assert(i % 8 == i); } else {
                assert(l[i / 8] == rest[i / 8 - 1]);
                assert((i - 8) / 8 == i / 8 - 1);
                assert((i - 8) % 8 == i % 8);
            }
        }
    }
}

pub proof fn lemma_bytes_bits_skip(b: Seq<u8>)
    requires b.len() >= 1,
    ensures bytes_bits(b) == lsb_bits(b[0] as nat, 8) + bytes_bits(b.skip(1)),
{
    assert(b =~= seq![b[0]] + b.skip(1));
    lemma_bytes_bits_cons(b[0], b.skip(1));
}

/// taking k bits off the front of an n-bit LSB-first string
pub proof fn lemma_lsb_split(x: nat, k: nat, n: nat)
    requires k <= n,
    ensures lsb_bits(x, n) == lsb_bits(x % pow2(k), k) + lsb_bits(x / pow2(k), (n - k) as nat),
{
    lemma_pow2_pos(k);
    let lo = x % pow2(k); let hi = x / pow2(k);
    vstd::arithmetic::div_mod::lemma_fundamental_div_mod(x as int, pow2(k) as int);
    assert(x == lo + hi * pow2(k)) by (nonlinear_arith) requires x == pow2(k) * hi + lo;
    vstd::arithmetic::div_mod::lemma_mod_bound(x as int, pow2(k) as int);
    lemma_lsb_bits_add(lo, hi, k, (n - k) as nat);
}

/// u32 mask/shift facts of BitReader::get
pub proof fn lemma_take_bits_u32(x: u32, k: u32)
    requires 1 <= k <= 8,
    ensures (x & !(u32::MAX << k)) as nat == x as nat % pow2(k as nat), (x >> k) as nat == x as nat / pow2(k as nat),
{
    lemma2_to64();
    lemma_pow2_le(k as nat, 8);
    vstd::bits::lemma_u32_shl_is_mul(1, k);
    let p: u32 = 1u32 << k;
    assert(p as nat == pow2(k as nat));
    assert((x & !(0xffff_ffffu32 << k)) == x % (1u32 << k)) by (bit_vector) requires 1 <= k <= 8;
    assert((x >> k) == x / (1u32 << k)) by (bit_vector) requires 1 <= k <= 8;
}

/// one iteration of BitReader::get: k bits move from the byte buffer (x0, c0 bits) to the result (w0, a0 bits)
pub proof fn lemma_get_step(w0: u32, a0: u32, x0: u32, c0: u32, k: u32)
    requires 1 <= k <= 8, k <= c0 <= 8, a0 + k <= 32, (w0 as nat) < pow2(a0 as nat),
    ensures ({
        let lo: u32 = x0 & !(u32::MAX << k);
        let w1: u32 = w0 | (lo << a0);
        &&& (w1 as nat) < pow2((a0 + k) as nat)
        &&& lsb_bits(w1 as nat, (a0 + k) as nat) + lsb_bits((x0 >> k) as nat, (c0 - k) as nat)
                == lsb_bits(w0 as nat, a0 as nat) + lsb_bits(x0 as nat, c0 as nat)
    }),
{
    let lo: u32 = x0 & !(u32::MAX << k);
    lemma_take_bits_u32(x0, k);
    lemma_pow2_pos(k as nat);
    lemma_mod_bound(x0 as int, pow2(k as nat) as int);
    lemma_or_shift_u32(w0, lo, a0, k);
    lemma_lsb_bits_add(w0 as nat, lo as nat, a0 as nat, k as nat);
    lemma_lsb_split(x0 as nat, k as nat, c0 as nat);
    let w1: u32 = w0 | (lo << a0);
    assert(lsb_bits(w1 as nat, (a0 + k) as nat) + lsb_bits((x0 >> k) as nat, (c0 - k) as nat)
        =~= lsb_bits(w0 as nat, a0 as nat) + (lsb_bits(lo as nat, k as nat) + lsb_bits((x0 >> k) as nat, (c0 - k) as nat)));
}

/// lemma_get_step with the unread bytes attached (the shape of the BitReader view)
pub proof fn lemma_get_step_tail(w0: u32, a0: u32, x0: u32, c0: u32, k: u32, tail: Seq<bool>)
    requires 1 <= k <= 8, k <= c0 <= 8, a0 + k <= 32, (w0 as nat) < pow2(a0 as nat),
    ensures ({
        let lo: u32 = x0 & !(u32::MAX << k);
        let w1: u32 = w0 | (lo << a0);
        &&& (w1 as nat) < pow2((a0 + k) as nat)
        &&& lsb_bits(w1 as nat, (a0 + k) as nat) + (lsb_bits((x0 >> k) as nat, (c0 - k) as nat) + tail)
                == lsb_bits(w0 as nat, a0 as nat) + (lsb_bits(x0 as nat, c0 as nat) + tail)
    }),
{
    lemma_get_step(w0, a0, x0, c0, k);
    let lo: u32 = x0 & !(u32::MAX << k);
    let w1: u32 = w0 | (lo << a0);
    let l1 = lsb_bits(w1 as nat, (a0 + k) as nat); let r1 = lsb_bits((x0 >> k) as nat, (c0 - k) as nat);
    let l0 = lsb_bits(w0 as nat, a0 as nat); let r0 = lsb_bits(x0 as nat, c0 as nat);
    assert(l1 + (r1 + tail) =~= (l1 + r1) + tail);
    assert(l0 + (r0 + tail) =~= (l0 + r0) + tail);
}

/// loading the next byte into an empty bit buffer does not change the view
pub proof fn lemma_load_byte(stale: u32, rest0: Seq<u8>)
    requires rest0.len() >= 1,
    ensures lsb_bits(stale as nat, 0) + bytes_bits(rest0) == lsb_bits(rest0[0] as nat, 8) + bytes_bits(rest0.skip(1)),
{
    lemma_bytes_bits_skip(rest0);
    assert(lsb_bits(stale as nat, 0) + bytes_bits(rest0) =~= bytes_bits(rest0));
}
