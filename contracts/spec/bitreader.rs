// ---- BitReader view (U12, U13) ----
pub open spec fn br_bits<R: Read>(b: &BitReader<R>) -> Seq<bool> {
    lsb_bits(b.bits_read as nat, b.bit_count as nat) + bytes_bits(b.binary_reader.rest())
}
pub open spec fn br_wf<R: Read>(b: &BitReader<R>) -> bool {
    b.bit_count <= 8
}

