// ---- run-length items of a dynamic header (TreeCodeType, count) ----
pub open spec fn tc_sym(t: TreeCodeType) -> int { match t { TreeCodeType::Code => 0, TreeCodeType::Repeat => 16, TreeCodeType::ZeroShort => 17, TreeCodeType::ZeroLong => 18 } }
pub open spec fn tc_sub(t: TreeCodeType) -> int { match t { TreeCodeType::Code => 0, TreeCodeType::Repeat => 3, TreeCodeType::ZeroShort => 3, TreeCodeType::ZeroLong => 11 } }
pub open spec fn tc_nbits(t: TreeCodeType) -> nat { match t { TreeCodeType::Code => 0, TreeCodeType::Repeat => 2, TreeCodeType::ZeroShort => 3, TreeCodeType::ZeroLong => 7 } }

pub open spec fn rle_ok(it: (TreeCodeType, u8)) -> bool {
    match it.0 { TreeCodeType::Code => it.1 <= 15, t => tc_sub(t) <= it.1 && ((it.1 - tc_sub(t)) as nat) < pow2(tc_nbits(t)) }
}
pub open spec fn rle_count(it: (TreeCodeType, u8)) -> int { match it.0 { TreeCodeType::Code => 1, _ => it.1 as int } }
pub open spec fn rle_total(items: Seq<(TreeCodeType, u8)>) -> int
    decreases items.len()
{ if items.len() == 0 { 0 } else { rle_total(items.drop_last()) + rle_count(items.last()) } }


pub proof fn lemma_rle_total_prefix(items: Seq<(TreeCodeType, u8)>, k: int)
    requires 0 <= k <= items.len(),
    ensures 0 <= rle_total(items.subrange(0, k)) <= rle_total(items),
        k < items.len() ==> rle_total(items.subrange(0, k + 1)) == rle_total(items.subrange(0, k)) + rle_count(items[k]),
    decreases items.len() - k
{
    if k < items.len() {
        assert(items.subrange(0, k + 1).drop_last() =~= items.subrange(0, k));
        assert(items.subrange(0, k + 1).last() == items[k]);
        lemma_rle_total_prefix(items, k + 1);
        lemma_rle_total_nonneg(items.subrange(0, k));
    } else {
        assert(items.subrange(0, k) =~= items);
        lemma_rle_total_nonneg(items);
    }
}
pub proof fn lemma_rle_total_nonneg(items: Seq<(TreeCodeType, u8)>)
    ensures 0 <= rle_total(items),
    decreases items.len()
{ if items.len() > 0 { lemma_rle_total_nonneg(items.drop_last()); } }
pub proof fn lemma_rle_mono(items: Seq<(TreeCodeType, u8)>, a: int, b: int)
    requires 0 <= a <= b <= items.len(),
    ensures rle_total(items.subrange(0, a)) <= rle_total(items.subrange(0, b)),
    decreases b - a
{
    if a < b { lemma_rle_mono(items, a, b - 1); lemma_rle_total_prefix(items, b - 1); lemma_rle_total_nonneg(seq![items[b - 1]]); }
}

// ---- header-level facts shared by the reader (U13), the writer (U15) and the tree predictor (U22) ----
/// what the tree predictor needs to know about the header it corrects (established by the reader: henc_wf)
pub open spec fn henc_tp(h: HuffmanOriginalEncoding) -> bool {
    &&& 257 <= h.num_literals <= 288 && 1 <= h.num_dist <= 32 && 4 <= h.num_code_lengths <= 19
    &&& forall|i: int| 0 <= i < 19 ==> #[trigger] h.code_lengths[i] <= 7
    &&& forall|i: int| 0 <= i < h.lengths@.len() ==> rle_ok(#[trigger] h.lengths@[i])
    &&& rle_total(h.lengths@) == h.num_literals + h.num_dist
    &&& h.lengths@.len() <= 320
}

pub open spec fn henc_same(a: HuffmanOriginalEncoding, b: HuffmanOriginalEncoding) -> bool {
    a.lengths@ == b.lengths@ && a.code_lengths@ == b.code_lengths@ && a.num_literals == b.num_literals && a.num_dist == b.num_dist
        && a.num_code_lengths == b.num_code_lengths
}
/// entries of the code-length code that the header does not transmit are zero (the reader starts from zeros)
pub open spec fn henc_tail_zero(h: HuffmanOriginalEncoding) -> bool {
    forall|i: int| h.num_code_lengths <= i < 19 ==> h.code_lengths[#[trigger] TREE_CODE_ORDER_TABLE[i] as int] == 0
}

/// henc_tp follows from the reader's well-formedness: at most 320 items because every item covers at least one length
pub proof fn lemma_rle_len_le_total(items: Seq<(TreeCodeType, u8)>)
    requires forall|i: int| 0 <= i < items.len() ==> rle_ok(#[trigger] items[i]),
    ensures items.len() <= rle_total(items),
    decreases items.len()
{
    if items.len() > 0 {
        let pre = items.drop_last();
        assert forall|i: int| 0 <= i < pre.len() implies rle_ok(#[trigger] pre[i]) by { assert(pre[i] == items[i]); }
        lemma_rle_len_le_total(pre);
        assert(rle_ok(items[items.len() - 1]));
    }
}
