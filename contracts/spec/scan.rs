// ---- wrapper formats the scanner recognises (C06), written from the format documents ----
/// API(ii) (A-DET + unit API): decompress_deflate_stream is a function of its input; with verify=true an accepted
/// stream reconstructs to exactly the consumed prefix.
pub struct ResV { pub pt: Seq<u8>, pub cor: Seq<u8>, pub size: nat }
pub uninterp spec fn analyze_spec(d: Seq<u8>) -> Option<ResV>;

pub open spec fn res_view(r: DecompressResult) -> ResV {
    ResV { pt: r.plain_text@, cor: r.prediction_corrections@, size: r.compressed_size as nat }
}

pub enum SigV { Zlib(u8), Zip, Gzip, Idat }

/// two-byte signatures: zlib CMF/FLG pairs 78 01 / 78 5E / 78 9C / 78 DA, "PK", gzip 1F 8B, "ID" of IDAT
pub open spec fn sig_at(src: Seq<u8>, j: int) -> Option<SigV> {
    if j < 0 || j + 1 >= src.len() { None }
    else if src[j] == 0x78 && src[j + 1] == 0x01 { Some(SigV::Zlib(0)) }
    else if src[j] == 0x78 && src[j + 1] == 0x5E { Some(SigV::Zlib(1)) }
    else if src[j] == 0x78 && src[j + 1] == 0x9C { Some(SigV::Zlib(5)) }
    else if src[j] == 0x78 && src[j + 1] == 0xDA { Some(SigV::Zlib(8)) }
    else if src[j] == 0x50 && src[j + 1] == 0x4B { Some(SigV::Zip) }
    else if src[j] == 0x1F && src[j + 1] == 0x8B { Some(SigV::Gzip) }
    else if src[j] == 0x49 && src[j + 1] == 0x44 { Some(SigV::Idat) }
    else { None }
}

/// index just after the first zero byte at or after `from`
pub open spec fn cstr_end(s: Seq<u8>, from: int) -> Option<int>
    decreases s.len() - from
{
    if from < 0 || from >= s.len() { None }
    else if s[from] == 0 { Some(from + 1) }
    else { cstr_end(s, from + 1) }
}

/// RFC 1952 member header: 10 fixed bytes (CM = 8), then FEXTRA (bit 2), FNAME (bit 3), FCOMMENT (bit 4), FHCRC (bit 1)
pub open spec fn gzip_hdr_len(s: Seq<u8>) -> Option<int> {
    if s.len() < 10 || s[2] != 8 { None } else {
        let flg = s[3];
        let p1: Option<int> = if flg & 0x04 != 0 {
            if 12 > s.len() { None } else {
                let xlen = le16_val(s.subrange(10, 12)) as int;
                if 12 + xlen > s.len() { None } else { Some(12 + xlen) }
            }
        } else { Some(10int) };
        match p1 {
            None => None,
            Some(a) => {
                let p2 = if flg & 0x08 != 0 { cstr_end(s, a) } else { Some(a) };
                match p2 {
                    None => None,
                    Some(b) => {
                        let p3 = if flg & 0x10 != 0 { cstr_end(s, b) } else { Some(b) };
                        match p3 {
                            None => None,
                            Some(c) => if flg & 0x02 != 0 { if c + 2 > s.len() { None } else { Some(c + 2) } } else { Some(c) }
                        }
                    }
                }
            }
        }
    }
}

/// PKZIP local file header: signature 04034b50, method at 8..10, name/extra lengths at 26..30; the data follows
pub open spec fn zip_hdr_len(s: Seq<u8>) -> Option<int> {
    if s.len() < 30 || le32_val(s.subrange(0, 4)) != 0x04034b50 { None } else {
        let n = le16_val(s.subrange(26, 28)) as int;
        let e = le16_val(s.subrange(28, 30)) as int;
        if le16_val(s.subrange(8, 10)) != 8 || 30 + n + e > s.len() { None } else { Some(30 + n + e) }
    }
}

pub proof fn lemma_cstr_end_bounds(s: Seq<u8>, from: int)
    ensures cstr_end(s, from) matches Some(e) ==> from < e <= s.len(),
    decreases s.len() - from
{
    if 0 <= from < s.len() && s[from] != 0 { lemma_cstr_end_bounds(s, from + 1); }
}

pub proof fn lemma_gzip_hdr_bounds(s: Seq<u8>)
    ensures gzip_hdr_len(s) matches Some(h) ==> 10 <= h <= s.len(),
{
    if s.len() >= 10 && s[2] == 8 {
        let flg = s[3];
        let a: int = if flg & 0x04 != 0 { 12 + le16_val(s.subrange(10, 12)) as int } else { 10 };
        lemma_cstr_end_bounds(s, a);
        let b: int = if flg & 0x08 != 0 { match cstr_end(s, a) { Some(x) => x, None => 0 } } else { a };
        lemma_cstr_end_bounds(s, b);
    }
}

// ---- what the scanner must emit (C06): the chunk list as a function of the file ----
/// what parse_idat returns, as a function of its input (proved in U7 against idat_run): the maximal run of complete,
/// non-empty IDAT chunks with matching CRCs; its concatenated payload is zlib header (2) + stream + Adler-32 (4)
pub struct IdatV { pub sizes: Seq<u32>, pub hdr: Seq<u8>, pub adler: u32, pub total: nat }
pub open spec fn idat_parse_spec(s: Seq<u8>) -> Option<(IdatV, Seq<u8>)> {
    if s.len() < 12 || s.subrange(4, 8) != idat_tag() { None } else {
        let r = idat_run(s);
        if !r.ok || r.z.len() < 6 { None } else {
            let n = r.z.len() as int;
            Some((IdatV { sizes: r.sizes, hdr: r.z.subrange(0, 2), adler: be32_val(r.z.subrange(n - 4, n)), total: (sum_u32(r.sizes) + 12 * r.sizes.len()) as nat },
                  r.z.subrange(2, n - 4)))
        }
    }
}
/// the U7 contract of parse_idat, restated over idat_parse_spec
pub proof fn lemma_idat_parse_spec(s: Seq<u8>, ok: bool, sizes: Seq<u32>, hdr: Seq<u8>, adler: u32, total: nat, p: Seq<u8>)
    requires
        ok == (s.len() >= 12 && s.subrange(4, 8) == idat_tag() && idat_run(s).ok && idat_run(s).z.len() >= 6),
        ok ==> sizes == idat_run(s).sizes && hdr + p + be32(adler) == idat_run(s).z && hdr.len() == 2
            && total == sum_u32(sizes) + 12 * sizes.len(),
    ensures
        ok <==> idat_parse_spec(s) is Some,
        ok ==> idat_parse_spec(s) == Some((IdatV { sizes, hdr, adler, total }, p)),
{
    if ok {
        let z = idat_run(s).z; let n = z.len() as int;
        lemma_be32_inverse(adler);
        assert(z.subrange(0, 2) =~= hdr);
        assert(z.subrange(n - 4, n) =~= be32(adler));
        assert(z.subrange(2, n - 4) =~= p);
    }
}
/// C06 for the IDAT wrapper, in the words of the property: the file holds, from offset a, a run of IDAT chunks (each
/// non-empty, CRCs as PNG defines them) whose concatenated payload is hdr(2) + stream + Adler-32, and what follows the
/// run does not begin a further complete IDAT chunk (arbitrary other bytes, or nothing). Then parse_idat returns
/// exactly that run and that stream.
pub proof fn lemma_c06_idat_run(f: Seq<u8>, a: int, sizes: Seq<u32>, hdr: Seq<u8>, adler: u32, p: Seq<u8>)
    requires 0 <= a, sizes.len() > 0, all_nonzero(sizes), hdr.len() == 2, sum_u32(sizes) == p.len() + 6,
        a + p.len() + 6 + 12 * sizes.len() <= f.len(),
        f.subrange(a, a + p.len() + 6 + 12 * sizes.len()) == idat_bytes(sizes, hdr, adler, p),
        idat_chunk_at(f.skip(a + p.len() + 6 + 12 * sizes.len())) is None,
    ensures
        idat_parse_spec(f.skip(a)) == Some((IdatV { sizes, hdr, adler, total: (p.len() + 6 + 12 * sizes.len()) as nat }, p)),
{
    let s = f.skip(a);
    lemma_be32_inverse(adler);
    let z = hdr + p + be32(adler);
    let n = (z.len() + 12 * sizes.len()) as int;
    assert(s.subrange(0, n) =~= f.subrange(a, a + n));
    assert(s.skip(n) =~= f.skip(a + n));
    lemma_idat_run_complete(s, sizes, z);
    // the first chunk's tag sits at bytes 4..8
    lemma_be32_inverse(sizes[0]);
    let k = sizes[0] as int;
    let head = be32(sizes[0]) + idat_tag() + z.subrange(0, k) + be32(crc32_spec(idat_tag() + z.subrange(0, k)));
    assert(idat_chunks(sizes, z) == head + idat_chunks(sizes.skip(1), z.skip(k)));
    assert(s.subrange(4, 8) =~= idat_tag()) by {
        assert forall|i: int| 0 <= i < 4 implies s[4 + i] == idat_tag()[i] by { assert(s[4 + i] == s.subrange(0, n)[4 + i]); assert(idat_chunks(sizes, z)[4 + i] == head[4 + i]); }
    }
    lemma_idat_parse_spec(s, true, sizes, hdr, adler, (p.len() + 6 + 12 * sizes.len()) as nat, p);
}

pub enum ChunkV { Lit(nat), Def(ResV), Idat(IdatV, ResV) }
pub struct Probe { pub start: int, pub chunk: ChunkV, pub next: int }

pub open spec fn min_blocksize() -> nat { 1024 }
pub open spec fn big(r: ResV) -> bool { r.pt.len() > min_blocksize() }

/// what a successful probe at signature offset j emits: the literal ends at `start`, scanning resumes at `next`
#[verifier::opaque]
pub open spec fn probe(src: Seq<u8>, j: int, prev: int) -> Option<Probe> {
    match sig_at(src, j) {
        None => None,
        Some(SigV::Zlib(_)) => match analyze_spec(src.skip(j + 2)) {
            Some(r) => if big(r) { Some(Probe { start: j + 2, chunk: ChunkV::Def(r), next: j + 2 + r.size }) } else { None },
            None => None,
        },
        Some(SigV::Gzip) => match gzip_hdr_len(src.skip(j)) {
            None => None,
            Some(h) => match analyze_spec(src.skip(j + h)) {
                Some(r) => if big(r) { Some(Probe { start: j + h, chunk: ChunkV::Def(r), next: j + h + r.size }) } else { None },
                None => None,
            },
        },
        Some(SigV::Zip) => match zip_hdr_len(src.skip(j)) {
            None => None,
            Some(h) => match analyze_spec(src.skip(j + h)) {
                Some(r) => if big(r) { Some(Probe { start: j + h, chunk: ChunkV::Def(r), next: j + h + r.size }) } else { None },
                None => None,
            },
        },
        Some(SigV::Idat) => if j < prev + 4 { None } else {
            match idat_parse_spec(src.skip(j - 4)) {
                None => None,
                Some((d, p)) => match analyze_spec(p) {
                    None => None,
                    Some(r) => if d.total > min_blocksize() && r.size == p.len() {
                        Some(Probe { start: j - 4, chunk: ChunkV::Idat(d, r), next: j - 4 + d.total })
                    } else { None },
                },
            }
        },
    }
}

pub open spec fn scan_tail(src: Seq<u8>, prev: int) -> Seq<ChunkV> {
    if prev < src.len() { seq![ChunkV::Lit((src.len() - prev) as nat)] } else { Seq::<ChunkV>::empty() }
}

/// THE SCANNER'S SPECIFICATION (C06): every offset is probed in order; an accepted probe emits the pending literal and
/// the stream chunk and scanning resumes after it; a failed probe advances one byte
#[verifier::opaque]
pub open spec fn scan_spec(src: Seq<u8>, i: int, prev: int) -> Seq<ChunkV>
    decreases src.len() - i
{
    if i < 0 || i + 1 >= src.len() { scan_tail(src, prev) } else {
        match probe(src, i, prev) {
            Some(p) => if i < p.next <= src.len() { seq![ChunkV::Lit((p.start - prev) as nat), p.chunk] + scan_spec(src, p.next, p.next) } else { scan_spec(src, i + 1, prev) },
            None => scan_spec(src, i + 1, prev),
        }
    }
}

pub proof fn lemma_scan_skip(src: Seq<u8>, i: int, j: int, prev: int)
    requires 0 <= i <= j, forall|k: int| i <= k < j && k < src.len() - 1 ==> sig_at(src, k) is None,
    ensures scan_spec(src, i, prev) == scan_spec(src, j, prev),
    decreases j - i
{
    reveal(scan_spec); reveal(probe);
    if i < j {
        if i + 1 >= src.len() {
            // both sides are the tail
            assert(scan_spec(src, j, prev) == scan_tail(src, prev));
        } else {
            assert(sig_at(src, i) is None);
            lemma_scan_skip(src, i + 1, j, prev);
        }
    }
}

/// LEMMA C06: a probe that succeeds at the first signature offset that is still uncovered is part of the output
pub proof fn lemma_c06_detected(src: Seq<u8>, i: int, prev: int, j: int)
    requires 0 <= i <= j, j + 1 < src.len(),
        forall|k: int| i <= k < j ==> probe(src, k, prev) is None,
        probe(src, j, prev) is Some, j < probe(src, j, prev)->Some_0.next <= src.len(),
    ensures ({
        let p = probe(src, j, prev)->Some_0;
        scan_spec(src, i, prev) == seq![ChunkV::Lit((p.start - prev) as nat), p.chunk] + scan_spec(src, p.next, p.next)
    }),
    decreases j - i
{
    reveal(scan_spec);
    if i < j { lemma_c06_detected(src, i + 1, prev, j); }
}

pub proof fn lemma_probe_zlib(f: Seq<u8>, j: int, prev: int)
    requires sig_at(f, j) matches Some(SigV::Zlib(_)),
    ensures
        analyze_spec(f.skip(j + 2)) is Some && big(analyze_spec(f.skip(j + 2))->Some_0) ==>
            probe(f, j, prev) == Some(Probe { start: j + 2, chunk: ChunkV::Def(analyze_spec(f.skip(j + 2))->Some_0), next: j + 2 + analyze_spec(f.skip(j + 2))->Some_0.size }),
        !(analyze_spec(f.skip(j + 2)) is Some && big(analyze_spec(f.skip(j + 2))->Some_0)) ==> probe(f, j, prev) is None,
{ reveal(probe); }

pub proof fn lemma_probe_gzip(f: Seq<u8>, j: int, prev: int)
    requires sig_at(f, j) == Some(SigV::Gzip),
    ensures
        gzip_hdr_len(f.skip(j)) is None ==> probe(f, j, prev) is None,
        gzip_hdr_len(f.skip(j)) matches Some(h) ==> ({
            let a = analyze_spec(f.skip(j + h));
            if a is Some && big(a->Some_0) { probe(f, j, prev) == Some(Probe { start: j + h, chunk: ChunkV::Def(a->Some_0), next: j + h + a->Some_0.size }) }
            else { probe(f, j, prev) is None } }),
{ reveal(probe); }

pub proof fn lemma_probe_zip(f: Seq<u8>, j: int, prev: int)
    requires sig_at(f, j) == Some(SigV::Zip),
    ensures
        zip_hdr_len(f.skip(j)) is None ==> probe(f, j, prev) is None,
        zip_hdr_len(f.skip(j)) matches Some(h) ==> ({
            let a = analyze_spec(f.skip(j + h));
            if a is Some && big(a->Some_0) { probe(f, j, prev) == Some(Probe { start: j + h, chunk: ChunkV::Def(a->Some_0), next: j + h + a->Some_0.size }) }
            else { probe(f, j, prev) is None } }),
{ reveal(probe); }

pub proof fn lemma_probe_idat(f: Seq<u8>, j: int, prev: int)
    requires sig_at(f, j) == Some(SigV::Idat),
    ensures
        j < prev + 4 ==> probe(f, j, prev) is None,
        j >= prev + 4 && idat_parse_spec(f.skip(j - 4)) is None ==> probe(f, j, prev) is None,
        j >= prev + 4 && idat_parse_spec(f.skip(j - 4)) is Some ==> ({
            let d = idat_parse_spec(f.skip(j - 4))->Some_0.0; let p = idat_parse_spec(f.skip(j - 4))->Some_0.1;
            let a = analyze_spec(p);
            if a is Some && d.total > min_blocksize() && a->Some_0.size == p.len() {
                probe(f, j, prev) == Some(Probe { start: j - 4, chunk: ChunkV::Idat(d, a->Some_0), next: j - 4 + d.total }) }
            else { probe(f, j, prev) is None } }),
{ reveal(probe); }

pub proof fn lemma_scan_reject(f: Seq<u8>, j: int, prev: int)
    requires 0 <= j, j + 1 < f.len(), probe(f, j, prev) is None,
    ensures scan_spec(f, j, prev) == scan_spec(f, j + 1, prev),
{ reveal(scan_spec); }

pub proof fn lemma_scan_end(f: Seq<u8>, i: int, prev: int)
    requires 0 <= i, forall|k: int| i <= k < f.len() - 1 ==> sig_at(f, k) is None,
    ensures scan_spec(f, i, prev) == scan_tail(f, prev),
    decreases f.len() - i
{
    reveal(scan_spec); reveal(probe);
    if i + 1 < f.len() { lemma_scan_end(f, i + 1, prev); }
}
