// ---- wrapper formats the scanner recognises (C06), written from the format documents ----
/// API(ii) (A-DET + unit API): decompress_deflate_stream is a function of its input; with verify=true an accepted
/// stream reconstructs to exactly the consumed prefix.
pub struct ResV { pub pt: Seq<u8>, pub cor: Seq<u8>, pub size: nat }
pub uninterp spec fn analyze_spec(d: Seq<u8>) -> Option<ResV>;

pub open spec fn res_view(r: DecompressResult) -> ResV {
    ResV { pt: r.plain_text@, cor: r.prediction_corrections@, size: r.compressed_size as nat }
}

pub enum SigV { Zlib(u8), Zip, Gzip, Idat }

/// two-byte signatures: zlib CMF/FLG pairs 78 01 / 78 5E / 78 9C / 78 DA, "PK", gzip 1F 8B, "ID" of IDAT
pub open spec fn sig_at(src: Seq<u8>, j: int) -> Option<SigV> {
    if j < 0 || j + 1 >= src.len() { None }
    else if src[j] == 0x78 && src[j + 1] == 0x01 { Some(SigV::Zlib(0)) }
    else if src[j] == 0x78 && src[j + 1] == 0x5E { Some(SigV::Zlib(1)) }
    else if src[j] == 0x78 && src[j + 1] == 0x9C { Some(SigV::Zlib(5)) }
    else if src[j] == 0x78 && src[j + 1] == 0xDA { Some(SigV::Zlib(8)) }
    else if src[j] == 0x50 && src[j + 1] == 0x4B { Some(SigV::Zip) }
    else if src[j] == 0x1F && src[j + 1] == 0x8B { Some(SigV::Gzip) }
    else if src[j] == 0x49 && src[j + 1] == 0x44 { Some(SigV::Idat) }
    else { None }
}

/// index just after the first zero byte at or after `from`
pub open spec fn cstr_end(s: Seq<u8>, from: int) -> Option<int>
    decreases s.len() - from
{
    if from < 0 || from >= s.len() { None }
    else if s[from] == 0 { Some(from + 1) }
    else { cstr_end(s, from + 1) }
}

/// RFC 1952 member header: 10 fixed bytes (CM = 8), then FEXTRA (bit 2), FNAME (bit 3), FCOMMENT (bit 4), FHCRC (bit 1)
pub open spec fn gzip_hdr_len(s: Seq<u8>) -> Option<int> {
    if s.len() < 10 || s[2] != 8 { None } else {
        let flg = s[3];
        let p1: Option<int> = if flg & 0x04 != 0 {
            if 12 > s.len() { None } else {
                let xlen = le16_val(s.subrange(10, 12)) as int;
                if 12 + xlen > s.len() { None } else { Some(12 + xlen) }
            }
        } else { Some(10int) };
        match p1 {
            None => None,
            Some(a) => {
                let p2 = if flg & 0x08 != 0 { cstr_end(s, a) } else { Some(a) };
                match p2 {
                    None => None,
                    Some(b) => {
                        let p3 = if flg & 0x10 != 0 { cstr_end(s, b) } else { Some(b) };
                        match p3 {
                            None => None,
                            Some(c) => if flg & 0x02 != 0 { if c + 2 > s.len() { None } else { Some(c + 2) } } else { Some(c) }
                        }
                    }
                }
            }
        }
    }
}

/// PKZIP local file header: signature 04034b50, method at 8..10, name/extra lengths at 26..30; the data follows
pub open spec fn zip_hdr_len(s: Seq<u8>) -> Option<int> {
    if s.len() < 30 || le32_val(s.subrange(0, 4)) != 0x04034b50 { None } else {
        let n = le16_val(s.subrange(26, 28)) as int;
        let e = le16_val(s.subrange(28, 30)) as int;
        if le16_val(s.subrange(8, 10)) != 8 || 30 + n + e > s.len() { None } else { Some(30 + n + e) }
    }
}

pub proof fn lemma_cstr_end_bounds(s: Seq<u8>, from: int)
    ensures cstr_end(s, from) matches Some(e) ==> from < e <= s.len(),
    decreases s.len() - from
{
    if 0 <= from < s.len() && s[from] != 0 { lemma_cstr_end_bounds(s, from + 1); }
}

pub proof fn lemma_gzip_hdr_bounds(s: Seq<u8>)
    ensures gzip_hdr_len(s) matches Some(h) ==> 10 <= h <= s.len(),
{
    if s.len() >= 10 && s[2] == 8 {
        let flg = s[3];
        let a: int = if flg & 0x04 != 0 { 12 + le16_val(s.subrange(10, 12)) as int } else { 10 };
        lemma_cstr_end_bounds(s, a);
        let b: int = if flg & 0x08 != 0 { match cstr_end(s, a) { Some(x) => x, None => 0 } } else { a };
        lemma_cstr_end_bounds(s, b);
    }
}
