// ---- token predictor: abstract state, the operation sequence of a block (frozen format at token level), C02 mirror ----
/// the predictor state as far as prediction depends on it: an abstract hash-chain state, the pending lazy match, the
/// token counter, the input position
pub struct PV { pub hv: int, pub pending: Option<PreflateTokenReference>, pub count: u32, pub pos: int }
// A-DET: the unverified prediction machinery is a function of (chain state, plaintext, position, parameters)
pub uninterp spec fn sp_update(hv: int, len: u32, e: Env, pos: int) -> int;
/// TokenPredictor::predict_token as a function (proved in U17 against the real body; formerly assumption A-PRED):
/// the token predicted at pos and the pending lazy match afterwards. FROZEN FORMAT (C04): every rule in here -- the
/// 3-byte-match distance limit, the lazy rule with max_lazy / good_length, the quartered search depth of zlib, the
/// pending match kept only by zlib-compatible streams -- decides what the stored corrections mean.
#[verifier::opaque]
pub open spec fn sp_predict(hv: int, pending: Option<PreflateTokenReference>, e: Env, pos: int) -> (PreflateToken, Option<PreflateTokenReference>) {
    let lit = PreflateToken::Literal(e.text[pos]);
    if pos == 0 || e.text.len() - pos < 3 { (lit, pending) } else {
        let m = match pending { Some(p) => MatchResult::Success(p), None => sp_match0(hv, 0, e.p.max_chain, e, pos) };
        match m {
            MatchResult::Success(mt) => {
                let l = ref_len(mt);
                if l == 3 && mt.dist as u32 > e.p.max_dist_3_matches as u32 { (lit, None) } else {
                    match e.p.matching_type {
                        MatchingType::Lazy { good_length, max_lazy } => {
                            if l < max_lazy as u32 && e.text.len() - pos >= l + 2 {
                                let depth: u32 = if e.p.zlib_compatible && l >= good_length as u32 { e.p.max_chain >> 2 } else { e.p.max_chain };
                                match sp_match1(hv, l, depth, e, pos) {
                                    MatchResult::Success(m2) => if ref_len(m2) > l { (lit, if e.p.zlib_compatible { Some(m2) } else { None }) } else { (PreflateToken::Reference(mt), None) },
                                    _ => (PreflateToken::Reference(mt), None),
                                }
                            } else { (PreflateToken::Reference(mt), None) }
                        },
                        MatchingType::Greedy => (PreflateToken::Reference(mt), None),
                    }
                }
            },
            _ => (lit, None),
        }
    }
}
/// the pending lazy match, if any, is a usable reference at the current position
pub open spec fn pv_pend_ok(v: PV, e: Env) -> bool {
    v.pending matches Some(p) ==> !p.irregular258 && p.dist >= 1 && v.pos > 0 && v.pos + ref_len(p) <= e.text.len()
}

pub open spec fn m_lpw() -> int { CodecMisprediction::LiteralPredictionWrong as int }
pub open spec fn m_rpw() -> int { CodecMisprediction::ReferencePredictionWrong as int }
pub open spec fn m_irr() -> int { CodecMisprediction::IrregularLen258 as int }
pub open spec fn m_eof() -> int { CodecMisprediction::EOFMisprediction as int }
pub open spec fn c_len() -> int { CodecCorrection::LenCorrection as int }
pub open spec fn c_dal() -> int { CodecCorrection::DistAfterLenCorrection as int }
pub open spec fn c_do() -> int { CodecCorrection::DistOnlyCorrection as int }
pub open spec fn c_bt() -> int { CodecCorrection::BlockTypeCorrection as int }
pub open spec fn c_tc() -> int { CodecCorrection::TokenCount as int }
pub open spec fn c_pad() -> int { CodecCorrection::NonZeroPadding as int }

pub open spec fn tok_len(t: PreflateToken) -> u32 { match t { PreflateToken::Literal(l) => 1u32, PreflateToken::Reference(r) => ref_len(r) } }

pub open spec fn sp_repredict(hv: int, e: Env, pos: int) -> Option<PreflateTokenReference> {
    if pos == 0 || e.text.len() - pos < 3 { None } else {
        match sp_match0(hv, 0, e.p.max_chain, e, pos) { MatchResult::Success(m) => Some(m), _ => None }
    }
}
/// commit_token
pub open spec fn tok_step(v: PV, e: Env, t: PreflateToken, pend: Option<PreflateTokenReference>) -> PV {
    PV { hv: sp_update(v.hv, tok_len(t), e, v.pos), pending: pend, count: (v.count + 1) as u32, pos: v.pos + tok_len(t) }
}
/// the predicted reference a target reference is corrected against, the flag operation that goes with it, and the
/// pending match afterwards (None: no candidate, the analysis fails)
pub open spec fn ref_pred(v: PV, e: Env, pt: PreflateToken, pend: Option<PreflateTokenReference>) -> Option<(PreflateTokenReference, Op, Option<PreflateTokenReference>)> {
    match pt {
        PreflateToken::Literal(x) => match sp_repredict(v.hv, e, v.pos) { Some(r) => Some((r, Op::Mis(m_lpw(), true), None)), None => None },
        PreflateToken::Reference(r) => Some((r, Op::Mis(m_rpw(), false), pend)),
    }
}
pub open spec fn len_op(r: PreflateTokenReference, tr: PreflateTokenReference) -> Op { Op::Corr(c_len(), ediff(ref_len(r), ref_len(tr))) }
/// the distance correction: hop count along the chain when length or distance differ, 0 when both are as predicted
pub open spec fn ref_dist(v: PV, e: Env, r: PreflateTokenReference, tr: PreflateTokenReference) -> Option<Op> {
    if ref_len(r) != ref_len(tr) {
        match sp_hops(v.hv, ref_len(tr), tr.dist as u32, e, v.pos) { Some(h) => Some(Op::Corr(c_dal(), h)), None => None }
    } else if tr.dist != r.dist {
        match sp_hops(v.hv, ref_len(tr), tr.dist as u32, e, v.pos) { Some(h) => Some(Op::Corr(c_do(), h)), None => None }
    } else { Some(Op::Corr(c_do(), 0)) }
}
pub open spec fn irr_ops(tr: PreflateTokenReference) -> Seq<Op> {
    if ref_len(tr) == 258 { seq![Op::Mis(m_irr(), tr.irregular258)] } else { Seq::<Op>::empty() }
}
pub open spec fn lit_op(pt: PreflateToken) -> Op {
    match pt { PreflateToken::Literal(x) => Op::Mis(m_lpw(), false), PreflateToken::Reference(x) => Op::Mis(m_rpw(), true) }
}
/// the operations predict_block emits for one target token, and the state afterwards (None: the analysis fails)
pub open spec fn tok_ops(v: PV, e: Env, t: PreflateToken) -> Option<(Seq<Op>, PV)> {
    let pp = sp_predict(v.hv, v.pending, e, v.pos);
    match t {
        PreflateToken::Literal(l) => Some((seq![lit_op(pp.0)], tok_step(v, e, t, pp.1))),
        PreflateToken::Reference(tr) => match ref_pred(v, e, pp.0, pp.1) {
            None => None,
            Some(q) => match ref_dist(v, e, q.0, tr) {
                None => None,
                Some(o3) => Some((seq![q.1, len_op(q.0, tr), o3] + irr_ops(tr), tok_step(v, e, t, q.2))),
            },
        },
    }
}
pub open spec fn toks_ops(v: PV, e: Env, ts: Seq<PreflateToken>) -> Option<(Seq<Op>, PV)>
    decreases ts.len()
{
    if ts.len() == 0 { Some((Seq::<Op>::empty(), v)) } else {
        match toks_ops(v, e, ts.drop_last()) {
            None => None,
            Some(a) => match tok_ops(a.1, e, ts.last()) { None => None, Some(b) => Some((a.0 + b.0, b.1)) },
        }
    }
}
/// the hash updates of a stored block of n bytes
pub open spec fn sp_stored(v: PV, e: Env, n: nat) -> PV
    decreases n
{
    if n == 0 { v } else { let w = sp_stored(v, e, (n - 1) as nat); PV { hv: sp_update(w.hv, 1, e, w.pos), pending: w.pending, count: w.count, pos: w.pos + 1 } }
}
pub open spec fn bt_code(b: BlockType) -> u32 { match b { BlockType::DynamicHuff => 0u32, BlockType::Stored => 1u32, BlockType::StaticHuff => 2u32 } }

/// the operations predict_block emits for a block (frozen format), and the state afterwards
pub open spec fn block_ops(v: PV, e: Env, b: PreflateTokenBlock, last: bool) -> Option<(Seq<Op>, PV)> {
    let v0 = PV { hv: v.hv, pending: None, count: 0, pos: v.pos };
    let head = Op::Corr(c_bt(), ediff(0, bt_code(b.block_type)));
    if b.block_type is Stored {
        Some((seq![head, Op::Value(b.uncompressed@.len() as u16, 16), Op::Corr(c_pad(), b.padding_bits as u32)], sp_stored(v0, e, b.uncompressed@.len())))
    } else {
        let n = b.tokens@.len(); let maxtc = e.p.max_token_count as int;
        let tc = if (!last && n != maxtc) || n > maxtc { Op::Corr(c_tc(), (n + 1) as u32) } else { Op::Corr(c_tc(), 0) };
        match toks_ops(v0, e, b.tokens@) { None => None, Some(a) => Some((seq![head, tc] + a.0, a.1)) }
    }
}

/// the tokens of a block are what the plaintext at the predictor's position says: literals are the next byte, a
/// reference stays inside the text and has at least one byte behind it; a stored block's bytes are the text
pub open spec fn tok_in_text(text: Seq<u8>, pos: int, t: PreflateToken) -> bool {
    match t {
        PreflateToken::Literal(l) => 0 <= pos < text.len() && text[pos] == l,
        PreflateToken::Reference(r) => 0 < pos && pos + ref_len(r) <= text.len() && (r.irregular258 ==> ref_len(r) == 258) && 1 <= r.dist <= 32768
            // an LZ77 reference: it points into the text before it and the bytes it denotes are there
            && r.dist <= pos && ref_matches(text, pos, r.dist as int, ref_len(r) as int),
    }
}
pub open spec fn toks_pos(pos: int, ts: Seq<PreflateToken>) -> int
    decreases ts.len()
{ if ts.len() == 0 { pos } else { toks_pos(pos, ts.drop_last()) + tok_len(ts.last()) } }
pub open spec fn toks_in_text(text: Seq<u8>, pos: int, ts: Seq<PreflateToken>) -> bool
    decreases ts.len()
{ if ts.len() == 0 { true } else { toks_in_text(text, pos, ts.drop_last()) && tok_in_text(text, toks_pos(pos, ts.drop_last()), ts.last()) } }

/// the whole operation sequence of a token sequence contains the sequences of its prefixes and of each token, in order
pub proof fn lemma_toks_ops_split(v: PV, e: Env, ts: Seq<PreflateToken>, k: int)
    requires toks_ops(v, e, ts) is Some, 0 <= k < ts.len(),
    ensures ({
        let an = toks_ops(v, e, ts)->Some_0;
        &&& toks_ops(v, e, ts.subrange(0, k)) matches Some(ak) && tok_ops(ak.1, e, ts[k]) matches Some(b)
            && toks_ops(v, e, ts.subrange(0, k + 1)) == Some((ak.0 + b.0, b.1))
            && ak.0.len() + b.0.len() <= an.0.len()
            && an.0.subrange(ak.0.len() as int, (ak.0.len() + b.0.len()) as int) == b.0
            && an.0.subrange(0, ak.0.len() as int) == ak.0
    }),
    decreases ts.len()
{
    let an = toks_ops(v, e, ts)->Some_0;
    let pre = ts.drop_last();
    let ap = toks_ops(v, e, pre)->Some_0;
    let bl = tok_ops(ap.1, e, ts.last())->Some_0;
    assert(an.0 == ap.0 + bl.0);
    if k == ts.len() - 1 {
        assert(ts.subrange(0, k) =~= pre);
        assert(ts.subrange(0, k + 1) =~= ts);
        assert(an.0.subrange(ap.0.len() as int, (ap.0.len() + bl.0.len()) as int) =~= bl.0);
        assert(an.0.subrange(0, ap.0.len() as int) =~= ap.0);
    } else {
        lemma_toks_ops_split(v, e, pre, k);
        assert(pre.subrange(0, k) =~= ts.subrange(0, k));
        assert(pre.subrange(0, k + 1) =~= ts.subrange(0, k + 1));
        assert(pre[k] == ts[k]);
        let ak = toks_ops(v, e, ts.subrange(0, k))->Some_0;
        let b = tok_ops(ak.1, e, ts[k])->Some_0;
        assert(an.0.subrange(ak.0.len() as int, (ak.0.len() + b.0.len()) as int) =~= ap.0.subrange(ak.0.len() as int, (ak.0.len() + b.0.len()) as int));
        assert(an.0.subrange(0, ak.0.len() as int) =~= ap.0.subrange(0, ak.0.len() as int));
    }
}

// ---- position / counter bookkeeping lemmas ----
pub proof fn lemma_sp_stored_pos(v: PV, e: Env, n: nat)
    ensures sp_stored(v, e, n).pos == v.pos + n, sp_stored(v, e, n).count == v.count, sp_stored(v, e, n).pending == v.pending,
    decreases n
{ if n > 0 { lemma_sp_stored_pos(v, e, (n - 1) as nat); } }
pub proof fn lemma_tok_ops_pos(v: PV, e: Env, t: PreflateToken)
    ensures tok_ops(v, e, t) matches Some(b) ==> b.1.pos == v.pos + tok_len(t) && b.1.count == (v.count + 1) as u32,
{}
pub proof fn lemma_toks_ops_pos(v: PV, e: Env, ts: Seq<PreflateToken>)
    requires v.count + ts.len() <= u32::MAX,
    ensures toks_ops(v, e, ts) matches Some(a) ==> a.1.pos == toks_pos(v.pos, ts) && a.1.count == v.count + ts.len(),
    decreases ts.len()
{
    if ts.len() > 0 {
        lemma_toks_ops_pos(v, e, ts.drop_last());
        match toks_ops(v, e, ts.drop_last()) { Some(a) => { lemma_tok_ops_pos(a.1, e, ts.last()); }, None => {} }
    }
}
pub proof fn lemma_toks_in_text_prefix(text: Seq<u8>, pos: int, ts: Seq<PreflateToken>, k: int)
    requires toks_in_text(text, pos, ts), 0 <= k <= ts.len(),
    ensures toks_in_text(text, pos, ts.subrange(0, k)), k < ts.len() ==> tok_in_text(text, toks_pos(pos, ts.subrange(0, k)), ts[k]),
    decreases ts.len()
{
    if k == ts.len() { assert(ts.subrange(0, k) =~= ts); } else {
        lemma_toks_in_text_prefix(text, pos, ts.drop_last(), if k < ts.len() - 1 { k } else { ts.len() - 1 });
        if k < ts.len() - 1 {
            assert(ts.drop_last().subrange(0, k) =~= ts.subrange(0, k));
            assert(ts.drop_last()[k] == ts[k]);
        } else {
            assert(ts.subrange(0, k) =~= ts.drop_last());
        }
    }
}


/// the position after a block is where the plaintext it denotes ends
pub proof fn lemma_block_ops_pos(v: PV, e: Env, b: PreflateTokenBlock, last: bool)
    requires b.tokens@.len() <= u32::MAX,
    ensures block_ops(v, e, b, last) matches Some(r) ==> r.1.pos == (if b.block_type is Stored { v.pos + b.uncompressed@.len() } else { toks_pos(v.pos, b.tokens@) }),
{
    let v0 = PV { hv: v.hv, pending: None, count: 0, pos: v.pos };
    if b.block_type is Stored { lemma_sp_stored_pos(v0, e, b.uncompressed@.len()); } else { lemma_toks_ops_pos(v0, e, b.tokens@); }
}
