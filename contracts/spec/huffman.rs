// ---- canonical Huffman codes (RFC 1951 3.2.2) and the decoding tree of huffman_helper.rs ----
/// number of symbols among the first n with code length d (d = 0 means "unused": never counted)
pub open spec fn cnt(l: Seq<u8>, d: int, n: int) -> int
    decreases n
{
    if n <= 0 || d <= 0 { 0 } else { cnt(l, d, n - 1) + (if l[n - 1] as int == d { 1int } else { 0int }) }
}
pub open spec fn cnt_all(l: Seq<u8>, d: int) -> int { cnt(l, d, l.len() as int) }

/// free slots at depth d of the code tree: S(1) = 2, S(d+1) = 2 (S(d) - leaves at depth d)
pub open spec fn slots(l: Seq<u8>, d: int) -> int
    decreases d
{
    if d <= 1 { 2 } else { 2 * (slots(l, d - 1) - cnt_all(l, d - 1)) }
}
/// the validity test of is_valid_huffman_code_lengths: lengths below 16 and a COMPLETE prefix code (Kraft sum 1)
pub open spec fn kraft_ok(l: Seq<u8>) -> bool {
    &&& l.len() > 0
    &&& forall|i: int| 0 <= i < l.len() ==> #[trigger] l[i] < 16
    &&& forall|d: int| 1 <= d <= 15 ==> cnt_all(l, d) <= #[trigger] slots(l, d)
    &&& slots(l, 16) == 0
}
/// opaque name for kraft_ok, for contracts that only pass the fact along (keeps its quantifiers out of their context)
#[verifier::opaque]
pub open spec fn kraft(l: Seq<u8>) -> bool { kraft_ok(l) }
/// first code of length d (RFC: next_code): nc(1) = 0, nc(d+1) = 2 (nc(d) + leaves at depth d)
pub open spec fn nc(l: Seq<u8>, d: int) -> int
    decreases d
{
    if d <= 1 { 0 } else { 2 * (nc(l, d - 1) + cnt_all(l, d - 1)) }
}
/// the low j bits of v in reverse order (bit 0 of v becomes the most significant)
pub open spec fn revn(v: nat, j: nat) -> nat
    decreases j
{
    if j == 0 { 0 } else { 2 * revn(v, (j - 1) as nat) + (v / pow2((j - 1) as nat)) % 2 }
}
/// the value calc_huffman_codes stores for symbol n: its canonical code, bit-reversed (so that writing it LSB first
/// sends the code MSB first)
pub open spec fn canon_at(l: Seq<u8>, n: int) -> nat {
    if l[n] == 0 { 0 } else { revn((nc(l, l[n] as int) + cnt(l, l[n] as int, n)) as nat, l[n] as nat) }
}

pub proof fn lemma_cnt_bounds(l: Seq<u8>, d: int, n: int)
    requires 0 <= n <= l.len(),
    ensures 0 <= cnt(l, d, n) <= n, cnt(l, d, n) <= cnt_all(l, d),
    decreases l.len() - n
{
    lemma_cnt_nonneg(l, d, n);
    if n < l.len() { lemma_cnt_bounds(l, d, n + 1); }
}
pub proof fn lemma_cnt_nonneg(l: Seq<u8>, d: int, n: int)
    ensures 0 <= cnt(l, d, n) <= (if n > 0 { n } else { 0 }),
    decreases n
{ if n > 0 && d > 0 { lemma_cnt_nonneg(l, d, n - 1); } }

/// codes and free slots partition the 2^d values of depth d
pub proof fn lemma_nc_slots(l: Seq<u8>, d: int)
    requires 1 <= d <= 16,
    ensures nc(l, d) + slots(l, d) == pow2(d as nat),
    decreases d
{
    lemma2_to64();
    if d > 1 { lemma_nc_slots(l, d - 1); lemma_pow2_unfold(d as nat); }
}
pub proof fn lemma_slots_nonneg(l: Seq<u8>, d: int)
    requires kraft_ok(l), 1 <= d <= 16,
    ensures 0 <= slots(l, d), 0 <= nc(l, d),
    decreases d
{
    if d > 1 { lemma_slots_nonneg(l, d - 1); lemma_cnt_nonneg(l, d - 1, l.len() as int); assert(cnt_all(l, d - 1) <= slots(l, d - 1)); }
}

pub proof fn lemma_revn_bound(v: nat, j: nat)
    ensures revn(v, j) < pow2(j),
    decreases j
{
    lemma2_to64();
    if j > 0 { lemma_revn_bound(v, (j - 1) as nat); lemma_pow2_unfold(j); }
}
/// bit i of the reversed value is bit j-1-i of the original
pub proof fn lemma_revn_bit(v: nat, j: nat, i: nat)
    requires i < j,
    ensures bit_of(revn(v, j), i) == bit_of(v, (j - 1 - i) as nat),
    decreases j
{
    lemma2_to64();
    let r = revn(v, (j - 1) as nat);
    let b = (v / pow2((j - 1) as nat)) % 2;
    assert(revn(v, j) == 2 * r + b);
    if i == 0 {
        assert(pow2(0) == 1);
        assert((2 * r + b) / 1 == 2 * r + b);
        assert(bit_of(revn(v, j), 0) == ((2 * r + b) % 2 == 1));
        assert((2 * r + b) % 2 == b) by { assert(b == 0 || b == 1); }
    } else {
        lemma_bit_of_half(revn(v, j), (i - 1) as nat);
        assert((2 * r + b) / 2 == r) by { assert(b == 0 || b == 1); }
        lemma_revn_bit(v, (j - 1) as nat, (i - 1) as nat);
    }
}

// ---- the decoding tree (array layout of calculate_huffman_code_tree) ----
/// index at which the nodes of depth d start: the levels are laid out deepest first
pub open spec fn lstart(l: Seq<u8>, d: int) -> int
    decreases 16 - d
{
    if d >= 15 { 0 } else { lstart(l, d + 1) + slots(l, d + 1) }
}
/// number of symbols with a length of at least d
pub open spec fn cnt_from(l: Seq<u8>, d: int) -> int
    decreases 16 - d
{
    if d >= 16 { 0 } else { cnt_all(l, d) + cnt_from(l, d + 1) }
}
/// `t` is the tree calculate_huffman_code_tree builds for l: depth d occupies t[lstart(d) .. lstart(d) + slots(d)], first the
/// leaves of length d in symbol order (entry -1 - symbol), then the internal nodes (entry = index of the pair of children)
pub open spec fn tree_ok(t: Seq<i32>, l: Seq<u8>) -> bool {
    &&& kraft_ok(l)
    &&& t.len() == lstart(l, 0)
    &&& forall|n: int| 0 <= n < l.len() && l[n] > 0 ==> #[trigger] t[lstart(l, l[n] as int) + cnt(l, l[n] as int, n)] == -1 - n
    &&& forall|d: int, q: int| 1 <= d <= 15 && 0 <= q < slots(l, d) - cnt_all(l, d)
            ==> #[trigger] t[lstart(l, d) + cnt_all(l, d) + q] == lstart(l, d + 1) + 2 * q
}

pub proof fn lemma_lstart_total(l: Seq<u8>, d: int)
    requires kraft_ok(l), 0 <= d <= 15,
    ensures lstart(l, d) == 2 * cnt_from(l, d + 1) - slots(l, d + 1), 0 <= lstart(l, d),
    decreases 16 - d
{
    lemma_slots_nonneg(l, d + 1);
    if d < 15 {
        lemma_lstart_total(l, d + 1);
        lemma_slots_nonneg(l, d + 2);
        lemma_cnt_nonneg(l, d + 1, l.len() as int);
    } else {
        assert(cnt_from(l, 16) == 0);
        assert(slots(l, 16) == 0);
    }
}
/// beyond the longest code all levels are empty
pub proof fn lemma_slots_above_max(l: Seq<u8>, m: int, d: int)
    requires kraft_ok(l), 0 <= m <= 15, forall|i: int| 0 <= i < l.len() ==> #[trigger] l[i] <= m, m < d <= 16,
    ensures slots(l, d) == 0, cnt_all(l, d) == 0 || d == 16,
    decreases 16 - d
{
    if d < 16 {
        lemma_cnt_zero_above(l, m, d, l.len() as int);
        lemma_slots_above_max(l, m, d + 1);
        lemma_slots_nonneg(l, d);
    }
}
pub proof fn lemma_cnt_zero_above(l: Seq<u8>, m: int, d: int, n: int)
    requires forall|i: int| 0 <= i < l.len() ==> #[trigger] l[i] <= m, m < d, 0 <= n <= l.len(),
    ensures cnt(l, d, n) == 0,
    decreases n
{ if n > 0 { lemma_cnt_zero_above(l, m, d, n - 1); } }
/// every leaf position of a level belongs to exactly one symbol
pub proof fn lemma_leaf_symbol(l: Seq<u8>, d: int, p: int, n: int) -> (s: int)
    requires 1 <= d <= 15, 0 <= n <= l.len(), 0 <= p < cnt(l, d, n),
    ensures 0 <= s < n, l[s] as int == d, cnt(l, d, s) == p,
    decreases n
{
    if l[n - 1] as int == d && cnt(l, d, n - 1) == p { n - 1 } else { lemma_leaf_symbol(l, d, p, n - 1) }
}

/// the value the writer stores for symbol n as a u16 sequence (what calc_huffman_codes returns)
#[verifier::opaque]
pub open spec fn canon(l: Seq<u8>) -> Seq<u16> { Seq::new(l.len(), |n: int| canon_at(l, n) as u16) }
/// `tree` is what calculate_huffman_code_tree returns for the code lengths l (of an alphabet that fits u16 symbols)
#[verifier::opaque]
pub open spec fn tree_for(tree: Seq<i32>, l: Seq<u8>) -> bool { tree_ok(tree, l) && l.len() <= 65535 }
pub proof fn lemma_tree_for_intro(tree: Seq<i32>, l: Seq<u8>)
    requires tree_ok(tree, l), l.len() <= 65535,
    ensures tree_for(tree, l),
{ reveal(tree_for); }
/// the bits of symbol s as they appear in the stream (the canonical code, most significant bit first)
pub open spec fn sym_bits(l: Seq<u8>, s: int) -> Seq<bool> { lsb_bits(canon(l)[s] as nat, l[s] as nat) }

pub proof fn lemma_canon_at_bound(l: Seq<u8>, n: int)
    requires 0 <= n < l.len(), l[n] < 16,
    ensures canon_at(l, n) < 65536, canon(l)[n] as nat == canon_at(l, n), canon(l).len() == l.len(),
{
    reveal(canon);
    lemma2_to64();
    if l[n] != 0 {
        lemma_revn_bound((nc(l, l[n] as int) + cnt(l, l[n] as int, n)) as nat, l[n] as nat);
        lemma_pow2_le(l[n] as nat, 15);
    }
}
/// writing the reversed code LSB first sends the code MSB first
pub proof fn lemma_revn_msb(v: nat, k: nat)
    ensures lsb_bits(revn(v, k), k) == msb_bits(v, k),
{
    assert forall|i: int| 0 <= i < k implies lsb_bits(revn(v, k), k)[i] == msb_bits(v, k)[i] by {
        lemma_revn_bit(v, k, i as nat);
    }
    assert(lsb_bits(revn(v, k), k) =~= msb_bits(v, k));
}
/// one more bit read: the MSB-first string grows at the end
pub proof fn lemma_msb_push(v: nat, j: nat, b: bool)
    ensures msb_bits(2 * v + (if b { 1nat } else { 0nat }), j + 1) == msb_bits(v, j).push(b),
{
    let v2 = 2 * v + (if b { 1nat } else { 0nat });
    assert forall|i: int| 0 <= i < j + 1 implies msb_bits(v2, j + 1)[i] == msb_bits(v, j).push(b)[i] by {
        if i < j {
            // bit (j - i) of v2 is bit (j - 1 - i) of v
            lemma_bit_of_half(v2, (j - 1 - i) as nat);
            assert(v2 / 2 == v);
        } else {
            lemma2_to64();
            assert(pow2(0) == 1);
            assert(v2 / 1 == v2);
            assert(bit_of(v2, 0) == (v2 % 2 == 1));
        }
    }
    assert(msb_bits(v2, j + 1) =~= msb_bits(v, j).push(b));
}

// ---- counting lemmas used by the tree construction ----
/// number of used symbols among the first n
pub open spec fn nz(l: Seq<u8>, n: int) -> int
    decreases n
{ if n <= 0 { 0 } else { nz(l, n - 1) + (if l[n - 1] != 0 { 1int } else { 0int }) } }
/// the used symbols are the symbols of lengths 1..=15
pub proof fn lemma_nz_total(l: Seq<u8>)
    requires forall|i: int| 0 <= i < l.len() ==> #[trigger] l[i] < 16,
    ensures nz(l, l.len() as int) == cnt_from(l, 1),
{
    lemma_nz_prefix(l, l.len() as int);
}
pub open spec fn cnt_from_n(l: Seq<u8>, d: int, n: int) -> int
    decreases 16 - d
{ if d >= 16 { 0 } else { cnt(l, d, n) + cnt_from_n(l, d + 1, n) } }
pub proof fn lemma_nz_prefix(l: Seq<u8>, n: int)
    requires forall|i: int| 0 <= i < l.len() ==> #[trigger] l[i] < 16, 0 <= n <= l.len(),
    ensures nz(l, n) == cnt_from_n(l, 1, n), n == l.len() ==> cnt_from_n(l, 1, n) == cnt_from(l, 1),
    decreases n
{
    if n == l.len() { lemma_cnt_from_n_all(l, 1); }
    if n > 0 {
        lemma_nz_prefix(l, n - 1);
        lemma_cnt_from_n_step(l, 1, n);
    } else {
        lemma_cnt_from_n_zero(l, 1);
    }
}
pub proof fn lemma_cnt_from_n_all(l: Seq<u8>, d: int)
    requires 1 <= d <= 16,
    ensures cnt_from_n(l, d, l.len() as int) == cnt_from(l, d),
    decreases 16 - d
{ if d < 16 { lemma_cnt_from_n_all(l, d + 1); } }
pub proof fn lemma_cnt_from_n_zero(l: Seq<u8>, d: int)
    requires 1 <= d <= 16,
    ensures cnt_from_n(l, d, 0) == 0,
    decreases 16 - d
{ if d < 16 { lemma_cnt_from_n_zero(l, d + 1); } }
/// adding symbol n-1 raises exactly the count of its own length
pub proof fn lemma_cnt_from_n_step(l: Seq<u8>, d: int, n: int)
    requires 1 <= d <= 16, 0 < n <= l.len(), l[n - 1] < 16,
    ensures cnt_from_n(l, d, n) == cnt_from_n(l, d, n - 1) + (if l[n - 1] as int >= d { 1int } else { 0int }),
    decreases 16 - d
{ if d < 16 { lemma_cnt_from_n_step(l, d + 1, n); } }
pub proof fn lemma_lstart_zero_above(l: Seq<u8>, m: int, d: int)
    requires kraft_ok(l), 0 <= m <= 15, forall|i: int| 0 <= i < l.len() ==> #[trigger] l[i] <= m, m <= d <= 15,
    ensures lstart(l, d) == 0,
    decreases 16 - d
{
    if d < 15 { lemma_lstart_zero_above(l, m, d + 1); lemma_slots_above_max(l, m, d + 1); }
}
/// level e > d ends at or before the start of level d
pub proof fn lemma_level_end(l: Seq<u8>, e: int, d: int)
    requires kraft_ok(l), 0 <= d < e <= 15,
    ensures lstart(l, e) + slots(l, e) <= lstart(l, d), 0 <= lstart(l, e), 0 <= slots(l, e),
    decreases e - d
{
    lemma_slots_nonneg(l, e); lemma_lstart_total(l, e);
    if d < e - 1 { lemma_level_end(l, e, d + 1); lemma_slots_nonneg(l, d + 1); }
}
/// the symbol itself is counted after position n
pub proof fn lemma_cnt_strict(l: Seq<u8>, d: int, n: int)
    requires 0 <= n < l.len(), l[n] as int == d, d >= 1,
    ensures 0 <= cnt(l, d, n) < cnt_all(l, d),
{
    lemma_cnt_bounds(l, d, n); lemma_cnt_bounds(l, d, n + 1);
}
pub proof fn lemma_cnt_strict_lt(l: Seq<u8>, d: int, n: int, j: int)
    requires 0 <= n < j <= l.len(), l[n] as int == d, d >= 1,
    ensures cnt(l, d, n) < cnt(l, d, j),
    decreases j - n
{
    if j > n + 1 { lemma_cnt_strict_lt(l, d, n, j - 1); lemma_cnt_mono1(l, d, j); } else { }
}
pub proof fn lemma_cnt_mono1(l: Seq<u8>, d: int, j: int)
    requires 0 < j <= l.len(),
    ensures cnt(l, d, j - 1) <= cnt(l, d, j),
{}
pub proof fn lemma_nz_bound(l: Seq<u8>, n: int)
    requires 0 <= n <= l.len(),
    ensures 0 <= nz(l, n) <= n,
    decreases n
{ if n > 0 { lemma_nz_bound(l, n - 1); } }
pub proof fn lemma_lstart_mono(l: Seq<u8>, d: int)
    requires kraft_ok(l), 0 <= d <= 15,
    ensures lstart(l, d) <= lstart(l, 0),
    decreases d
{
    if d > 0 { lemma_lstart_mono(l, d - 1); lemma_slots_nonneg(l, d); }
}


/// a tree for an alphabet of at most 65535 symbols has fewer than 2^17 entries
pub proof fn lemma_tree_len(t: Seq<i32>, l: Seq<u8>)
    requires tree_for(t, l),
    ensures t.len() < 0x4000_0000, t.len() >= 2,
{
    reveal(tree_for);
    lemma_nz_total(l); lemma_lstart_total(l, 0); lemma_nz_bound(l, l.len() as int);
    assert(slots(l, 1) == 2);
    lemma_lstart_mono(l, 1); lemma_lstart_total(l, 1);
    assert(lstart(l, 0) == lstart(l, 1) + slots(l, 1));
}

/// one step of the bit-reversal loop of calc_huffman_codes
pub proof fn lemma_rev_step(rc: u16, c: u16, orig: nat, j: nat)
    requires rc as nat == revn(orig, j), c as nat == orig / pow2(j), j <= 14,
    ensures (((rc << 1) | (c & 1)) as nat) == revn(orig, j + 1), ((c >> 1) as nat) == orig / pow2(j + 1),
{
    lemma2_to64();
    lemma_revn_bound(orig, j);
    lemma_pow2_le(j, 14);
    assert(rc < 16384 ==> ((rc << 1) | (c & 1)) == 2 * rc + c % 2) by (bit_vector);
    assert(c >> 1 == c / 2) by (bit_vector);
    lemma_pow2_unfold(j + 1);
    lemma_pow2_pos(j);
    lemma_div_denominator(orig as int, pow2(j) as int, 2);
    assert(pow2(j + 1) == pow2(j) * 2);
    assert(revn(orig, j + 1) == 2 * revn(orig, j) + (orig / pow2(j)) % 2);
}

/// counting over a range of equal lengths
pub proof fn lemma_cnt_range(l: Seq<u8>, c: u8, a: int, b: int, d: int)
    requires 0 <= a <= b <= l.len(), forall|i: int| a <= i < b ==> #[trigger] l[i] == c,
    ensures cnt(l, d, b) == cnt(l, d, a) + (if d == c as int && d >= 1 { b - a } else { 0 }),
    decreases b - a
{
    if a < b {
        lemma_cnt_range(l, c, a, b - 1, d);
    }
}
