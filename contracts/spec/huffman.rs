// ---- canonical Huffman codes (RFC 1951 3.2.2) and the decoding tree of huffman_helper.rs ----
/// number of symbols among the first n with code length d (d = 0 means "unused": never counted)
pub open spec fn cnt(l: Seq<u8>, d: int, n: int) -> int
    decreases n
{
    if n <= 0 || d <= 0 { 0 } else { cnt(l, d, n - 1) + (if l[n - 1] as int == d { 1int } else { 0int }) }
}
pub open spec fn cnt_all(l: Seq<u8>, d: int) -> int { cnt(l, d, l.len() as int) }

/// free slots at depth d of the code tree: S(1) = 2, S(d+1) = 2 (S(d) - leaves at depth d)
pub open spec fn slots(l: Seq<u8>, d: int) -> int
    decreases d
{
    if d <= 1 { 2 } else { 2 * (slots(l, d - 1) - cnt_all(l, d - 1)) }
}
/// the validity test of is_valid_huffman_code_lengths: lengths below 16 and a COMPLETE prefix code (Kraft sum 1)
pub open spec fn kraft_ok(l: Seq<u8>) -> bool {
    &&& l.len() > 0
    &&& forall|i: int| 0 <= i < l.len() ==> #[trigger] l[i] < 16
    &&& forall|d: int| 1 <= d <= 15 ==> cnt_all(l, d) <= #[trigger] slots(l, d)
    &&& slots(l, 16) == 0
}
/// first code of length d (RFC: next_code): nc(1) = 0, nc(d+1) = 2 (nc(d) + leaves at depth d)
pub open spec fn nc(l: Seq<u8>, d: int) -> int
    decreases d
{
    if d <= 1 { 0 } else { 2 * (nc(l, d - 1) + cnt_all(l, d - 1)) }
}
/// the low j bits of v in reverse order (bit 0 of v becomes the most significant)
pub open spec fn revn(v: nat, j: nat) -> nat
    decreases j
{
    if j == 0 { 0 } else { 2 * revn(v, (j - 1) as nat) + (v / pow2((j - 1) as nat)) % 2 }
}
/// the value calc_huffman_codes stores for symbol n: its canonical code, bit-reversed (so that writing it LSB first
/// sends the code MSB first)
pub open spec fn canon_at(l: Seq<u8>, n: int) -> nat {
    if l[n] == 0 { 0 } else { revn((nc(l, l[n] as int) + cnt(l, l[n] as int, n)) as nat, l[n] as nat) }
}

pub proof fn lemma_cnt_bounds(l: Seq<u8>, d: int, n: int)
    requires 0 <= n <= l.len(),
    ensures 0 <= cnt(l, d, n) <= n, cnt(l, d, n) <= cnt_all(l, d),
    decreases l.len() - n
{
    lemma_cnt_nonneg(l, d, n);
    if n < l.len() { lemma_cnt_bounds(l, d, n + 1); }
}
pub proof fn lemma_cnt_nonneg(l: Seq<u8>, d: int, n: int)
    ensures 0 <= cnt(l, d, n) <= (if n > 0 { n } else { 0 }),
    decreases n
{ if n > 0 && d > 0 { lemma_cnt_nonneg(l, d, n - 1); } }

/// codes and free slots partition the 2^d values of depth d
pub proof fn lemma_nc_slots(l: Seq<u8>, d: int)
    requires 1 <= d <= 16,
    ensures nc(l, d) + slots(l, d) == pow2(d as nat),
    decreases d
{
    lemma2_to64();
    if d > 1 { lemma_nc_slots(l, d - 1); lemma_pow2_unfold(d as nat); }
}
pub proof fn lemma_slots_nonneg(l: Seq<u8>, d: int)
    requires kraft_ok(l), 1 <= d <= 16,
    ensures 0 <= slots(l, d), 0 <= nc(l, d),
    decreases d
{
    if d > 1 { lemma_slots_nonneg(l, d - 1); lemma_cnt_nonneg(l, d - 1, l.len() as int); assert(cnt_all(l, d - 1) <= slots(l, d - 1)); }
}

pub proof fn lemma_revn_bound(v: nat, j: nat)
    ensures revn(v, j) < pow2(j),
    decreases j
{
    lemma2_to64();
    if j > 0 { lemma_revn_bound(v, (j - 1) as nat); lemma_pow2_unfold(j); }
}
/// bit i of the reversed value is bit j-1-i of the original
pub proof fn lemma_revn_bit(v: nat, j: nat, i: nat)
    requires i < j,
    ensures bit_of(revn(v, j), i) == bit_of(v, (j - 1 - i) as nat),
    decreases j
{
    lemma2_to64();
    let r = revn(v, (j - 1) as nat);
    let b = (v / pow2((j - 1) as nat)) % 2;
    assert(revn(v, j) == 2 * r + b);
    if i == 0 {
        assert(pow2(0) == 1);
        assert((2 * r + b) / 1 == 2 * r + b);
        assert(bit_of(revn(v, j), 0) == ((2 * r + b) % 2 == 1));
        assert((2 * r + b) % 2 == b) by { assert(b == 0 || b == 1); }
    } else {
        lemma_bit_of_half(revn(v, j), (i - 1) as nat);
        assert((2 * r + b) / 2 == r) by { assert(b == 0 || b == 1); }
        lemma_revn_bit(v, (j - 1) as nat, (i - 1) as nat);
    }
}
