// ---- block sequence level of the correction stream (process.rs): EOF flags, blocks, tree corrections ----
/// the operations predict_tree_for_block emits for a dynamic header (defined in tree_ops.rs, proved in U22), with the
/// Huffman length calculator the library uses for both directions
pub open spec fn tree_ops(h: HuffmanOriginalEncoding, f: FreqV) -> Seq<Op> { tree_ops_def(h, f, HufftreeBitCalc::Zlib) }

/// operations for block b at state v: an EOF flag if the text is exhausted, the block, the tree corrections
pub open spec fn blk_ops(v: PV, e: Env, b: PreflateTokenBlock, last: bool) -> Option<(Seq<Op>, PV)> {
    let eo = if v.pos == e.text.len() { seq![Op::Mis(m_eof(), true)] } else { Seq::<Op>::empty() };
    match block_ops(v, e, b, last) {
        None => None,
        Some(r) => Some((eo + r.0 + (if b.block_type is DynamicHuff { tree_ops(b.huffman_encoding, freq_v(b.freq)) } else { Seq::<Op>::empty() }), r.1)),
    }
}
/// predict_blocks: every block but the final one of the whole sequence is predicted with last = false
pub open spec fn blks_ops(v: PV, e: Env, bs: Seq<PreflateTokenBlock>, fin: bool) -> Option<(Seq<Op>, PV)>
    decreases bs.len()
{
    if bs.len() == 0 { Some((Seq::<Op>::empty(), v)) } else {
        match blks_ops(v, e, bs.drop_last(), false) {
            None => None,
            Some(a) => match blk_ops(a.1, e, bs.last(), fin) { None => None, Some(b) => Some((a.0 + b.0, b.1)) },
        }
    }
}
/// a block is what the plaintext at position pos says (see tok_in_text); `fin`: it ends at the end of the text
pub open spec fn blk_in_text(text: Seq<u8>, pos: int, b: PreflateTokenBlock, fin: bool) -> bool {
    if b.block_type is Stored {
        b.tokens@.len() == 0 && b.uncompressed@.len() <= 65535 && 0 <= pos && pos + b.uncompressed@.len() <= text.len()
            && b.uncompressed@ == text.subrange(pos, pos + b.uncompressed@.len()) && (fin ==> pos + b.uncompressed@.len() == text.len())
    } else {
        b.tokens@.len() < 0x7FFF_FFF0 && toks_in_text(text, pos, b.tokens@) && (fin ==> toks_pos(pos, b.tokens@) == text.len())
    }
}
pub open spec fn blk_end(pos: int, b: PreflateTokenBlock) -> int {
    if b.block_type is Stored { pos + b.uncompressed@.len() } else { toks_pos(pos, b.tokens@) }
}
pub open spec fn blks_end(pos: int, bs: Seq<PreflateTokenBlock>) -> int
    decreases bs.len()
{ if bs.len() == 0 { pos } else { blk_end(blks_end(pos, bs.drop_last()), bs.last()) } }
pub open spec fn blks_in_text(text: Seq<u8>, pos: int, bs: Seq<PreflateTokenBlock>, fin: bool) -> bool
    decreases bs.len()
{
    if bs.len() == 0 { true } else {
        blks_in_text(text, pos, bs.drop_last(), false) && blk_in_text(text, blks_end(pos, bs.drop_last()), bs.last(), fin)
    }
}

/// upper bound on the codec operations predict_blocks performs (statistics counters)
pub open spec fn ops_budget(bs: Seq<PreflateTokenBlock>) -> int
    decreases bs.len()
{ if bs.len() == 0 { 0 } else { ops_budget(bs.drop_last()) + 4 * bs.last().tokens@.len() + 1010 } }

pub proof fn lemma_budget_blocks(bs: Seq<PreflateTokenBlock>)
    ensures ops_budget(bs) >= 1010 * bs.len(),
    decreases bs.len()
{ if bs.len() > 0 { lemma_budget_blocks(bs.drop_last()); } }
pub proof fn lemma_blks_prefix(text: Seq<u8>, pos: int, bs: Seq<PreflateTokenBlock>, k: int)
    requires blks_in_text(text, pos, bs, true), 0 <= k < bs.len(),
    ensures blks_in_text(text, pos, bs.subrange(0, k), false), blk_in_text(text, blks_end(pos, bs.subrange(0, k)), bs[k], k == bs.len() - 1),
        ops_budget(bs.subrange(0, k)) + 4 * bs[k].tokens@.len() + 1010 <= ops_budget(bs),
    decreases bs.len()
{
    lemma_blks_prefix_gen(text, pos, bs, true, k);
}
pub proof fn lemma_blks_prefix_gen(text: Seq<u8>, pos: int, bs: Seq<PreflateTokenBlock>, fin: bool, k: int)
    requires blks_in_text(text, pos, bs, fin), 0 <= k < bs.len(),
    ensures blks_in_text(text, pos, bs.subrange(0, k), false), blk_in_text(text, blks_end(pos, bs.subrange(0, k)), bs[k], fin && k == bs.len() - 1),
        ops_budget(bs.subrange(0, k)) + 4 * bs[k].tokens@.len() + 1010 <= ops_budget(bs), 0 <= ops_budget(bs.subrange(0, k)),
    decreases bs.len()
{
    if k == bs.len() - 1 {
        assert(bs.subrange(0, k) =~= bs.drop_last());
        lemma_budget_nonneg(bs.drop_last());
    } else {
        lemma_blks_prefix_gen(text, pos, bs.drop_last(), false, k);
        assert(bs.drop_last().subrange(0, k) =~= bs.subrange(0, k));
        assert(bs.drop_last()[k] == bs[k]);
        lemma_budget_nonneg(bs.drop_last());
    }
}
pub proof fn lemma_budget_nonneg(bs: Seq<PreflateTokenBlock>)
    ensures 0 <= ops_budget(bs),
    decreases bs.len()
{ if bs.len() > 0 { lemma_budget_nonneg(bs.drop_last()); } }

/// the predictor state a run starts with
pub open spec fn pv_init(hv0: int) -> PV { PV { hv: hv0, pending: None, count: 0, pos: 0 } }
/// encode_mispredictions: all blocks, then "no more blocks" and the padding of the last byte
pub open spec fn stream_ops(hv0: int, e: Env, bs: Seq<PreflateTokenBlock>, eof_padding: u8) -> Option<Seq<Op>> {
    match blks_ops(pv_init(hv0), e, bs, true) {
        None => None,
        Some(a) => Some(a.0 + seq![Op::Mis(m_eof(), false), Op::Corr(c_pad(), eof_padding as u32)]),
    }
}

/// what the reconstruction needs to know about the original blocks (established by the DEFLATE reader, U16)
pub open spec fn blks_wf(bs: Seq<PreflateTokenBlock>) -> bool {
    forall|i: int| 0 <= i < bs.len() ==> block_coded(#[trigger] bs[i])
        && (bs[i].block_type is DynamicHuff ==> henc_wf(bs[i].huffman_encoding))
        && freq_v(bs[i].freq) == freq_of(bs[i].block_type, bs[i].tokens@)
}
/// splitting the operation sequence at block k
pub proof fn lemma_blks_ops_split(v: PV, e: Env, bs: Seq<PreflateTokenBlock>, k: int)
    requires blks_ops(v, e, bs, true) is Some, 0 <= k < bs.len(),
    ensures ({
        let an = blks_ops(v, e, bs, true)->Some_0;
        let fin = (k == bs.len() - 1);
        &&& blks_ops(v, e, bs.subrange(0, k), false) matches Some(ak) && blk_ops(ak.1, e, bs[k], fin) matches Some(b)
            && blks_ops(v, e, bs.subrange(0, k + 1), fin) == Some((ak.0 + b.0, b.1))
            && ak.0.len() + b.0.len() <= an.0.len()
            && an.0.subrange(ak.0.len() as int, (ak.0.len() + b.0.len()) as int) == b.0
            && (fin ==> ak.0.len() + b.0.len() == an.0.len() && b.1 == an.1)
    }),
{
    lemma_blks_ops_split_gen(v, e, bs, true, k);
}
pub proof fn lemma_blks_ops_split_gen(v: PV, e: Env, bs: Seq<PreflateTokenBlock>, f: bool, k: int)
    requires blks_ops(v, e, bs, f) is Some, 0 <= k < bs.len(),
    ensures ({
        let an = blks_ops(v, e, bs, f)->Some_0;
        let fin = f && (k == bs.len() - 1);
        &&& blks_ops(v, e, bs.subrange(0, k), false) matches Some(ak) && blk_ops(ak.1, e, bs[k], fin) matches Some(b)
            && blks_ops(v, e, bs.subrange(0, k + 1), fin) == Some((ak.0 + b.0, b.1))
            && ak.0.len() + b.0.len() <= an.0.len()
            && an.0.subrange(ak.0.len() as int, (ak.0.len() + b.0.len()) as int) == b.0
            && (k == bs.len() - 1 ==> ak.0.len() + b.0.len() == an.0.len() && b.1 == an.1)
    }),
    decreases bs.len()
{
    let an = blks_ops(v, e, bs, f)->Some_0;
    let pre = bs.drop_last();
    let ap = blks_ops(v, e, pre, false)->Some_0;
    let bl = blk_ops(ap.1, e, bs.last(), f)->Some_0;
    assert(an.0 == ap.0 + bl.0);
    if k == bs.len() - 1 {
        assert(bs.subrange(0, k) =~= pre);
        assert(bs.subrange(0, k + 1) =~= bs);
        assert(an.0.subrange(ap.0.len() as int, (ap.0.len() + bl.0.len()) as int) =~= bl.0);
    } else {
        lemma_blks_ops_split_gen(v, e, pre, false, k);
        assert(pre.subrange(0, k) =~= bs.subrange(0, k));
        assert(pre.subrange(0, k + 1) =~= bs.subrange(0, k + 1));
        assert(pre[k] == bs[k]);
        let ak = blks_ops(v, e, bs.subrange(0, k), false)->Some_0;
        let b = blk_ops(ak.1, e, bs[k], false)->Some_0;
        assert(an.0.subrange(ak.0.len() as int, (ak.0.len() + b.0.len()) as int) =~= ap.0.subrange(ak.0.len() as int, (ak.0.len() + b.0.len()) as int));
    }
}
/// the bits of a prefix of blocks extended by one block
pub proof fn lemma_blocks_bits_push(bs: Seq<PreflateTokenBlock>, k: int)
    requires 0 <= k < bs.len(),
    ensures ({
        let prev = blocks_bits(bs.subrange(0, k), false);
        let fin = (k == bs.len() - 1);
        blocks_bits(bs.subrange(0, k + 1), fin) == prev + block_bits(bs[k], fin, ((8 - (prev.len() + 3) % 8) % 8) as nat)
    }),
{
    assert(bs.subrange(0, k + 1).drop_last() =~= bs.subrange(0, k));
    assert(bs.subrange(0, k + 1).last() == bs[k]);
}

/// the script holds `ops` at position p
pub open spec fn script_has(sc: Seq<Op>, p: int, ops: Seq<Op>) -> bool {
    0 <= p && p + ops.len() <= sc.len() && sc.subrange(p, p + ops.len()) == ops
}
pub proof fn lemma_script_sub(sc: Seq<Op>, p: int, whole: Seq<Op>, off: int, part: Seq<Op>)
    requires script_has(sc, p, whole), 0 <= off, off + part.len() <= whole.len(), whole.subrange(off, off + part.len()) == part,
    ensures script_has(sc, p + off, part),
{
    assert(sc.subrange(p + off, p + off + part.len()) =~= part) by {
        assert forall|j: int| 0 <= j < part.len() implies sc[p + off + j] == part[j] by {
            assert(sc.subrange(p, p + whole.len())[off + j] == sc[p + off + j]);
            assert(whole.subrange(off, off + part.len())[j] == whole[off + j]);
        }
    }
}


/// everything recreate_blocks needs to know about the script at block k, in one place
#[verifier::rlimit(80)]
pub proof fn lemma_blk_script(sc: Seq<Op>, p0: int, v0: PV, e: Env, bs: Seq<PreflateTokenBlock>, k: int)
    requires blks_ops(v0, e, bs, true) is Some, 0 <= k < bs.len(),
        script_has(sc, p0, blks_ops(v0, e, bs, true)->Some_0.0.push(Op::Mis(m_eof(), false))),
    ensures ({
        let an = blks_ops(v0, e, bs, true)->Some_0;
        let fin = (k == bs.len() - 1);
        &&& blks_ops(v0, e, bs.subrange(0, k), false) matches Some(ak) && block_ops(ak.1, e, bs[k], fin) matches Some(r1) && ({
            let eo: int = if ak.1.pos == e.text.len() { 1 } else { 0 };
            let tr = if bs[k].block_type is DynamicHuff { tree_ops(bs[k].huffman_encoding, freq_v(bs[k].freq)) } else { Seq::<Op>::empty() };
            let end = ak.0.len() + eo + r1.0.len() + tr.len();
            &&& script_has(sc, p0 + ak.0.len() + eo, r1.0)
            &&& script_has(sc, p0 + ak.0.len() + eo + r1.0.len(), tr)
            &&& blks_ops(v0, e, bs.subrange(0, k + 1), fin) matches Some(a1) && a1.0.len() == end && a1.1 == r1.1
            &&& (eo == 1 ==> sc[p0 + ak.0.len()] == Op::Mis(m_eof(), true))
            &&& (fin ==> end == an.0.len() && sc[p0 + end] == Op::Mis(m_eof(), false) && r1.1 == an.1)
            &&& (!fin && r1.1.pos == e.text.len() ==> sc[p0 + end] == Op::Mis(m_eof(), true))
            &&& p0 + end < sc.len() || (!fin && r1.1.pos != e.text.len())
        })
    }),
{
    let an = blks_ops(v0, e, bs, true)->Some_0;
    let whole = an.0.push(Op::Mis(m_eof(), false));
    let fin = (k == bs.len() - 1);
    lemma_blks_ops_split(v0, e, bs, k);
    let ak = blks_ops(v0, e, bs.subrange(0, k), false)->Some_0;
    let bk = blk_ops(ak.1, e, bs[k], fin)->Some_0;
    let r1 = block_ops(ak.1, e, bs[k], fin)->Some_0;
    let eos = if ak.1.pos == e.text.len() { seq![Op::Mis(m_eof(), true)] } else { Seq::<Op>::empty() };
    let tr = if bs[k].block_type is DynamicHuff { tree_ops(bs[k].huffman_encoding, freq_v(bs[k].freq)) } else { Seq::<Op>::empty() };
    assert(bk.0 == eos + r1.0 + tr);
    assert(whole.subrange(ak.0.len() as int, (ak.0.len() + bk.0.len()) as int) =~= an.0.subrange(ak.0.len() as int, (ak.0.len() + bk.0.len()) as int));
    lemma_script_sub(sc, p0, whole, ak.0.len() as int, bk.0);
    assert(bk.0.subrange(eos.len() as int, (eos.len() + r1.0.len()) as int) =~= r1.0);
    lemma_script_sub(sc, p0 + ak.0.len(), bk.0, eos.len() as int, r1.0);
    assert(bk.0.subrange((eos.len() + r1.0.len()) as int, (eos.len() + r1.0.len() + tr.len()) as int) =~= tr);
    lemma_script_sub(sc, p0 + ak.0.len(), bk.0, (eos.len() + r1.0.len()) as int, tr);
    if eos.len() == 1 {
        assert(bk.0[0] == Op::Mis(m_eof(), true));
        assert(sc.subrange(p0 + ak.0.len(), p0 + ak.0.len() + bk.0.len())[0] == sc[p0 + ak.0.len()]);
    }
    let end = ak.0.len() + bk.0.len();
    if fin {
        assert(whole[an.0.len() as int] == Op::Mis(m_eof(), false));
        assert(sc.subrange(p0, p0 + whole.len())[an.0.len() as int] == sc[p0 + an.0.len()]);
    } else {
        lemma_blks_ops_split(v0, e, bs, k + 1);
        let nb = blk_ops(r1.1, e, bs[k + 1], k + 1 == bs.len() - 1)->Some_0;
        if r1.1.pos == e.text.len() {
            assert(nb.0[0] == Op::Mis(m_eof(), true));
            assert(an.0.subrange(end as int, (end + nb.0.len()) as int)[0] == an.0[end as int]);
            assert(whole[end as int] == an.0[end as int]);
            assert(sc.subrange(p0, p0 + whole.len())[end as int] == sc[p0 + end]);
        }
    }
}
