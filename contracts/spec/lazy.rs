// ---- shared by the level estimator (U23), the parameter estimator (U19) and the match search (spec/hops.rs) ----
/// zlib's quartered search depth for "good" matches stays positive: either the quartering can never apply
/// (good_length >= max_lazy) or a quarter of the chain budget is at least 1
pub open spec fn lazy_ok(m: MatchingType, max_chain: u32) -> bool {
    m matches MatchingType::Lazy { good_length, max_lazy } ==> good_length >= max_lazy || max_chain >= 4
}
