// ---- A-CHAN (DESIGN 3.3): history-conditioned channel model of the context-adaptive binary arithmetic coder ----
// ASSUMED: every context cell has a history (the bits coded with it so far); a symbol coded with a cell records the
// cell's history at that moment; the decoder must present a cell with the same history (then its adaptive state is
// the same as the encoder's was) and gets the bit back. Bypass symbols carry no state.
pub enum Sym { Ctx(bool, Seq<bool>), Byp(bool) }
pub uninterp spec fn hist<C>(c: C) -> Seq<bool>;

pub open spec fn sym_bit(s: Sym) -> bool { match s { Sym::Ctx(b, _) => b, Sym::Byp(b) => b } }

pub open spec fn hists<C, const N: usize>(a: [C; N]) -> Seq<Seq<bool>> {
    Seq::new(N as nat, |i: int| hist(a[i]))
}

pub open spec fn trues(k: int) -> Seq<bool> { Seq::new(if k > 0 { k as nat } else { 0 }, |j: int| true) }

// ---- unary code: `v` true bits then a false bit; step i uses cell min(N-1, i) ----
/// history of the cell used at step i, given that all earlier bits were true
pub open spec fn unary_cell_hist(hs: Seq<Seq<bool>>, i: int) -> Seq<bool> {
    let n = hs.len() as int;
    if i < n - 1 { hs[i] } else { hs[n - 1] + trues(i - (n - 1)) }
}

pub open spec fn unary_syms(hs: Seq<Seq<bool>>, v: int) -> Seq<Sym> {
    Seq::new((v + 1) as nat, |i: int| Sym::Ctx(i != v, unary_cell_hist(hs, i)))
}

/// histories after k steps that all coded `true`
pub open spec fn unary_hists_partial(hs: Seq<Seq<bool>>, k: int) -> Seq<Seq<bool>> {
    let n = hs.len() as int;
    Seq::new(hs.len(), |c: int|
        if c < n - 1 { if c < k { hs[c].push(true) } else { hs[c] } }
        else { if k > n - 1 { hs[n - 1] + trues(k - (n - 1)) } else { hs[n - 1] } })
}

/// histories after the complete code of v
pub open spec fn unary_hists(hs: Seq<Seq<bool>>, v: int) -> Seq<Seq<bool>> {
    let n = hs.len() as int;
    Seq::new(hs.len(), |c: int|
        if c < n - 1 { if c < v { hs[c].push(true) } else if c == v { hs[c].push(false) } else { hs[c] } }
        else { if v >= n - 1 { (hs[n - 1] + trues(v - (n - 1))).push(false) } else { hs[n - 1] } })
}

/// reader side: value of the unary code at the head of `rem` (cells must present matching histories)
pub open spec fn unary_parse(rem: Seq<Sym>, hs: Seq<Seq<bool>>, i: int) -> Option<int>
    decreases rem.len()
{
    if rem.len() == 0 { None } else {
        match rem[0] {
            Sym::Byp(_) => None,
            Sym::Ctx(b, h) => if h != unary_cell_hist(hs, i) { None } else if !b { Some(i) } else { unary_parse(rem.skip(1), hs, i + 1) }
        }
    }
}

pub proof fn lemma_unary_parse_bounds(rem: Seq<Sym>, hs: Seq<Seq<bool>>, i: int)
    ensures unary_parse(rem, hs, i) matches Some(v) ==> i <= v && v - i < rem.len(),
    decreases rem.len()
{
    if rem.len() > 0 {
        match rem[0] {
            Sym::Byp(_) => {},
            Sym::Ctx(b, h) => { if h == unary_cell_hist(hs, i) && b { lemma_unary_parse_bounds(rem.skip(1), hs, i + 1); } }
        }
    }
}

pub proof fn lemma_trues_push(k: int)
    requires k >= 0,
    ensures trues(k).push(true) == trues(k + 1),
{
    assert(trues(k).push(true) =~= trues(k + 1));
}

/// INVERSE LAW (unary): the reader-side parse of the writer-side symbols is v, whatever follows
pub proof fn lemma_unary_inverse(hs: Seq<Seq<bool>>, v: int, i: int, tail: Seq<Sym>)
    requires 0 <= i <= v, hs.len() > 0,
    ensures unary_parse(unary_syms(hs, v).skip(i) + tail, hs, i) == Some(v),
    decreases v - i
{
    let s = unary_syms(hs, v).skip(i) + tail;
    assert(s[0] == unary_syms(hs, v)[i]);
    if i < v {
        assert(s.skip(1) =~= unary_syms(hs, v).skip(i + 1) + tail);
        lemma_unary_inverse(hs, v, i + 1, tail);
    }
}

// ---- fixed number of bits, most significant first; the bit with index i = nb-1-t uses cell min(N-1, i) ----
/// history of the cell used at step t (bit index nb-1-t) when the bits bs[0..t] were coded before
pub open spec fn nbits_cell_hist(hs: Seq<Seq<bool>>, bs: Seq<bool>, t: int) -> Seq<bool> {
    let n = hs.len() as int;
    let i = bs.len() - 1 - t;
    if i < n - 1 { hs[i] } else { hs[n - 1] + bs.subrange(0, t) }
}

/// symbols of the bit string bs (MSB first)
pub open spec fn nbits_syms(hs: Seq<Seq<bool>>, bs: Seq<bool>) -> Seq<Sym> {
    Seq::new(bs.len(), |t: int| Sym::Ctx(bs[t], nbits_cell_hist(hs, bs, t)))
}

/// histories after the first k bits of bs have been coded
pub open spec fn nbits_hists_partial(hs: Seq<Seq<bool>>, bs: Seq<bool>, k: int) -> Seq<Seq<bool>> {
    let n = hs.len() as int;
    let nb = bs.len() as int;
    Seq::new(hs.len(), |c: int|
        if c < n - 1 { if nb - k <= c < nb { hs[c].push(bs[nb - 1 - c]) } else { hs[c] } }
        else {
            // bit indices nb-1 .. max(nb-k, n-1) went to the last cell: these are steps t = 0 .. min(k, nb-(n-1)) - 1
            let cnt = if nb - (n - 1) < k { nb - (n - 1) } else { k };
            if cnt > 0 { hs[n - 1] + bs.subrange(0, cnt) } else { hs[n - 1] }
        })
}

pub open spec fn nbits_hists(hs: Seq<Seq<bool>>, bs: Seq<bool>) -> Seq<Seq<bool>> {
    nbits_hists_partial(hs, bs, bs.len() as int)
}

/// the bits carried by the first nb symbols
pub open spec fn sym_bits(rem: Seq<Sym>, nb: int) -> Seq<bool> {
    Seq::new(nb as nat, |t: int| sym_bit(rem[t]))
}

/// reader side: the first nb symbols are context symbols whose recorded histories are the ones the cells will have
pub open spec fn nbits_ok(rem: Seq<Sym>, hs: Seq<Seq<bool>>, nb: int) -> bool {
    0 <= nb <= rem.len() && rem.subrange(0, nb) == nbits_syms(hs, sym_bits(rem, nb))
}

/// INVERSE LAW (n bits): what the writer emits for bs is accepted by the reader and carries bs
pub proof fn lemma_nbits_inverse(hs: Seq<Seq<bool>>, bs: Seq<bool>, tail: Seq<Sym>)
    ensures
        nbits_ok(nbits_syms(hs, bs) + tail, hs, bs.len() as int),
        sym_bits(nbits_syms(hs, bs) + tail, bs.len() as int) == bs,
{
    let rem = nbits_syms(hs, bs) + tail;
    assert(sym_bits(rem, bs.len() as int) =~= bs);
    assert(rem.subrange(0, bs.len() as int) =~= nbits_syms(hs, bs));
}

// ---- bypass bits ----
pub open spec fn byp_syms(bs: Seq<bool>) -> Seq<Sym> { Seq::new(bs.len(), |t: int| Sym::Byp(bs[t])) }

pub open spec fn byp_ok(rem: Seq<Sym>, nb: int) -> bool {
    0 <= nb <= rem.len() && forall|t: int| 0 <= t < nb ==> rem[t] is Byp
}

pub proof fn lemma_byp_inverse(bs: Seq<bool>, tail: Seq<Sym>)
    ensures byp_ok(byp_syms(bs) + tail, bs.len() as int), sym_bits(byp_syms(bs) + tail, bs.len() as int) == bs,
{
    assert(sym_bits(byp_syms(bs) + tail, bs.len() as int) =~= bs);
}
