// ---- A-CHAN (DESIGN 3.3): history-conditioned channel model of the context-adaptive binary arithmetic coder ----
// ASSUMED: every context cell has a history (the bits coded with it so far); a symbol coded with a cell records the
// cell's history at that moment; the decoder must present a cell with the same history (then its adaptive state is
// the same as the encoder's was) and gets the bit back. Bypass symbols carry no state.
pub enum Sym { Ctx(bool, Seq<bool>), Byp(bool) }
pub uninterp spec fn hist<C>(c: C) -> Seq<bool>;

pub open spec fn sym_bit(s: Sym) -> bool { match s { Sym::Ctx(b, _) => b, Sym::Byp(b) => b } }

pub open spec fn hists<C, const N: usize>(a: [C; N]) -> Seq<Seq<bool>> {
    Seq::new(N as nat, |i: int| hist(a[i]))
}

pub open spec fn trues(k: int) -> Seq<bool> { Seq::new(if k > 0 { k as nat } else { 0 }, |j: int| true) }

// ---- unary code: `v` true bits then a false bit; step i uses cell min(N-1, i) ----
/// history of the cell used at step i, given that all earlier bits were true
pub open spec fn unary_cell_hist(hs: Seq<Seq<bool>>, i: int) -> Seq<bool> {
    let n = hs.len() as int;
    if i < n - 1 { hs[i] } else { hs[n - 1] + trues(i - (n - 1)) }
}

pub open spec fn unary_syms(hs: Seq<Seq<bool>>, v: int) -> Seq<Sym> {
    Seq::new((v + 1) as nat, |i: int| Sym::Ctx(i != v, unary_cell_hist(hs, i)))
}

/// histories after k steps that all coded `true`
pub open spec fn unary_hists_partial(hs: Seq<Seq<bool>>, k: int) -> Seq<Seq<bool>> {
    let n = hs.len() as int;
    Seq::new(hs.len(), |c: int|
        if c < n - 1 { if c < k { hs[c].push(true) } else { hs[c] } }
        else { if k > n - 1 { hs[n - 1] + trues(k - (n - 1)) } else { hs[n - 1] } })
}

/// histories after the complete code of v
pub open spec fn unary_hists(hs: Seq<Seq<bool>>, v: int) -> Seq<Seq<bool>> {
    let n = hs.len() as int;
    Seq::new(hs.len(), |c: int|
        if c < n - 1 { if c < v { hs[c].push(true) } else if c == v { hs[c].push(false) } else { hs[c] } }
        else { if v >= n - 1 { (hs[n - 1] + trues(v - (n - 1))).push(false) } else { hs[n - 1] } })
}

/// reader side: value of the unary code at the head of `rem` (cells must present matching histories)
pub open spec fn unary_parse(rem: Seq<Sym>, hs: Seq<Seq<bool>>, i: int) -> Option<int>
    decreases rem.len()
{
    if rem.len() == 0 { None } else {
        match rem[0] {
            Sym::Byp(_) => None,
            Sym::Ctx(b, h) => if h != unary_cell_hist(hs, i) { None } else if !b { Some(i) } else { unary_parse(rem.skip(1), hs, i + 1) }
        }
    }
}

pub proof fn lemma_unary_parse_bounds(rem: Seq<Sym>, hs: Seq<Seq<bool>>, i: int)
    ensures unary_parse(rem, hs, i) matches Some(v) ==> i <= v && v - i < rem.len(),
    decreases rem.len()
{
    if rem.len() > 0 {
        match rem[0] {
            Sym::Byp(_) => {},
            Sym::Ctx(b, h) => { if h == unary_cell_hist(hs, i) && b { lemma_unary_parse_bounds(rem.skip(1), hs, i + 1); } }
        }
    }
}

pub proof fn lemma_trues_push(k: int)
    requires k >= 0,
    ensures trues(k).push(true) == trues(k + 1),
{
    assert(trues(k).push(true) =~= trues(k + 1));
}

/// INVERSE LAW (unary): the reader-side parse of the writer-side symbols is v, whatever follows
pub proof fn lemma_unary_inverse(hs: Seq<Seq<bool>>, v: int, i: int, tail: Seq<Sym>)
    requires 0 <= i <= v, hs.len() > 0,
    ensures unary_parse(unary_syms(hs, v).skip(i) + tail, hs, i) == Some(v),
    decreases v - i
{
    let s = unary_syms(hs, v).skip(i) + tail;
    assert(s[0] == unary_syms(hs, v)[i]);
    if i < v {
        assert(s.skip(1) =~= unary_syms(hs, v).skip(i + 1) + tail);
        lemma_unary_inverse(hs, v, i + 1, tail);
    }
}

// ---- fixed number of bits, most significant first; the bit with index i = nb-1-t uses cell min(N-1, i) ----
/// history of the cell used at step t (bit index nb-1-t) when the bits bs[0..t] were coded before
pub open spec fn nbits_cell_hist(hs: Seq<Seq<bool>>, bs: Seq<bool>, t: int) -> Seq<bool> {
    let n = hs.len() as int;
    let i = bs.len() - 1 - t;
    if i < n - 1 { hs[i] } else { hs[n - 1] + bs.subrange(0, t) }
}

/// symbols of the bit string bs (MSB first)
pub open spec fn nbits_syms(hs: Seq<Seq<bool>>, bs: Seq<bool>) -> Seq<Sym> {
    Seq::new(bs.len(), |t: int| Sym::Ctx(bs[t], nbits_cell_hist(hs, bs, t)))
}

/// histories after the first k bits of bs have been coded
pub open spec fn nbits_hists_partial(hs: Seq<Seq<bool>>, bs: Seq<bool>, k: int) -> Seq<Seq<bool>> {
    let n = hs.len() as int;
    let nb = bs.len() as int;
    Seq::new(hs.len(), |c: int|
        if c < n - 1 { if nb - k <= c < nb { hs[c].push(bs[nb - 1 - c]) } else { hs[c] } }
        else {
            // bit indices nb-1 .. max(nb-k, n-1) went to the last cell: these are steps t = 0 .. min(k, nb-(n-1)) - 1
            let cnt = if nb - (n - 1) < k { nb - (n - 1) } else { k };
            if cnt > 0 { hs[n - 1] + bs.subrange(0, cnt) } else { hs[n - 1] }
        })
}

pub open spec fn nbits_hists(hs: Seq<Seq<bool>>, bs: Seq<bool>) -> Seq<Seq<bool>> {
    nbits_hists_partial(hs, bs, bs.len() as int)
}

/// the bits carried by the first nb symbols
pub open spec fn sym_bits(rem: Seq<Sym>, nb: int) -> Seq<bool> {
    Seq::new(nb as nat, |t: int| sym_bit(rem[t]))
}

/// reader side: the first nb symbols are context symbols whose recorded histories are the ones the cells will have
pub open spec fn nbits_ok(rem: Seq<Sym>, hs: Seq<Seq<bool>>, nb: int) -> bool {
    0 <= nb <= rem.len() && rem.subrange(0, nb) == nbits_syms(hs, sym_bits(rem, nb))
}

/// INVERSE LAW (n bits): what the writer emits for bs is accepted by the reader and carries bs
pub proof fn lemma_nbits_inverse(hs: Seq<Seq<bool>>, bs: Seq<bool>, tail: Seq<Sym>)
    ensures
        nbits_ok(nbits_syms(hs, bs) + tail, hs, bs.len() as int),
        sym_bits(nbits_syms(hs, bs) + tail, bs.len() as int) == bs,
{
    let rem = nbits_syms(hs, bs) + tail;
    assert(sym_bits(rem, bs.len() as int) =~= bs);
    assert(rem.subrange(0, bs.len() as int) =~= nbits_syms(hs, bs));
}

// ---- bypass bits ----
pub open spec fn byp_syms(bs: Seq<bool>) -> Seq<Sym> { Seq::new(bs.len(), |t: int| Sym::Byp(bs[t])) }

pub open spec fn byp_ok(rem: Seq<Sym>, nb: int) -> bool {
    0 <= nb <= rem.len() && forall|t: int| 0 <= t < nb ==> rem[t] is Byp
}

pub proof fn lemma_byp_inverse(bs: Seq<bool>, tail: Seq<Sym>)
    ensures byp_ok(byp_syms(bs) + tail, bs.len() as int), sym_bits(byp_syms(bs) + tail, bs.len() as int) == bs,
{
    assert(sym_bits(byp_syms(bs) + tail, bs.len() as int) =~= bs);
}

// ---- exp-Golomb-like value code of the correction codec: unary bit length, then the bits below the top bit ----
pub open spec fn bitlen(v: nat) -> nat
    decreases v
{
    if v == 0 { 0 } else { 1 + bitlen(v / 2) }
}

pub proof fn lemma_bitlen_bounds(v: nat)
    ensures
        v > 0 ==> bitlen(v) >= 1 && vstd::arithmetic::power2::pow2((bitlen(v) - 1) as nat) <= v < vstd::arithmetic::power2::pow2(bitlen(v)),
        v == 0 ==> bitlen(v) == 0,
    decreases v
{
    use vstd::arithmetic::power2::*;
    lemma2_to64();
    if v > 0 {
        lemma_bitlen_bounds(v / 2);
        lemma_pow2_unfold(bitlen(v));
        if v / 2 > 0 {
            lemma_pow2_unfold((bitlen(v) - 1) as nat);
        }
    }
}

pub proof fn lemma_bitlen_unique(v: nat, b: nat)
    requires b >= 1, vstd::arithmetic::power2::pow2((b - 1) as nat) <= v < vstd::arithmetic::power2::pow2(b),
    ensures bitlen(v) == b,
{
    use vstd::arithmetic::power2::*;
    lemma_bitlen_bounds(v);
    lemma_pow2_pos((b - 1) as nat);
    let c = bitlen(v);
    if c < b { lemma_pow2_le(c, (b - 1) as nat); }
    if c > b { lemma_pow2_le(b, (c - 1) as nat); }
}

pub open spec fn exp_syms(hu: Seq<Seq<bool>>, hb: Seq<Seq<bool>>, v: nat) -> Seq<Sym> {
    let b = bitlen(v);
    unary_syms(hu, b as int) + (if b > 1 { nbits_syms(hb, msb_bits(v, (b - 1) as nat)) } else { Seq::<Sym>::empty() })
}

pub open spec fn exp_hu(hu: Seq<Seq<bool>>, v: nat) -> Seq<Seq<bool>> { unary_hists(hu, bitlen(v) as int) }

pub open spec fn exp_hb(hb: Seq<Seq<bool>>, v: nat) -> Seq<Seq<bool>> {
    if bitlen(v) > 1 { nbits_hists(hb, msb_bits(v, (bitlen(v) - 1) as nat)) } else { hb }
}

/// reader side
pub open spec fn exp_ok(rem: Seq<Sym>, hu: Seq<Seq<bool>>, hb: Seq<Seq<bool>>) -> bool {
    unary_parse(rem, hu, 0) matches Some(b) && b <= 32 && (b > 1 ==> nbits_ok(rem.skip(b + 1), hb, b - 1))
}

pub open spec fn exp_val(rem: Seq<Sym>, hu: Seq<Seq<bool>>, hb: Seq<Seq<bool>>) -> nat {
    let b = unary_parse(rem, hu, 0)->Some_0;
    if b <= 1 { b as nat } else { val_of_bits(sym_bits(rem.skip(b + 1), b - 1)) + vstd::arithmetic::power2::pow2((b - 1) as nat) }
}

pub open spec fn exp_len(rem: Seq<Sym>, hu: Seq<Seq<bool>>, hb: Seq<Seq<bool>>) -> int {
    let b = unary_parse(rem, hu, 0)->Some_0;
    if b <= 1 { b + 1 } else { 2 * b }
}

pub open spec fn exp_rd_hu(rem: Seq<Sym>, hu: Seq<Seq<bool>>) -> Seq<Seq<bool>> { unary_hists(hu, unary_parse(rem, hu, 0)->Some_0) }

pub open spec fn exp_rd_hb(rem: Seq<Sym>, hu: Seq<Seq<bool>>, hb: Seq<Seq<bool>>) -> Seq<Seq<bool>> {
    let b = unary_parse(rem, hu, 0)->Some_0;
    if b > 1 { nbits_hists(hb, sym_bits(rem.skip(b + 1), b - 1)) } else { hb }
}

/// INVERSE LAW (value code): what write_exp_encoded emits for v is accepted by read_exp_value and yields v,
/// consumes exactly those symbols, and leaves the cells with the same histories on both sides
pub proof fn lemma_exp_inverse(hu: Seq<Seq<bool>>, hb: Seq<Seq<bool>>, v: nat, tail: Seq<Sym>)
    requires hu.len() > 0, v < 0x1_0000_0000,
    ensures ({
        let rem = exp_syms(hu, hb, v) + tail;
        &&& exp_ok(rem, hu, hb)
        &&& exp_val(rem, hu, hb) == v
        &&& exp_len(rem, hu, hb) == exp_syms(hu, hb, v).len()
        &&& rem.skip(exp_len(rem, hu, hb)) == tail
        &&& exp_rd_hu(rem, hu) == exp_hu(hu, v)
        &&& exp_rd_hb(rem, hu, hb) == exp_hb(hb, v)
    }),
{
    use vstd::arithmetic::power2::*;
    let b: int = bitlen(v) as int;
    let rem = exp_syms(hu, hb, v) + tail;
    let rest = (if b > 1 { nbits_syms(hb, msb_bits(v, (b - 1) as nat)) } else { Seq::<Sym>::empty() }) + tail;
    assert(rem =~= unary_syms(hu, b) + rest);
    assert(unary_syms(hu, b).skip(0) =~= unary_syms(hu, b));
    lemma_unary_inverse(hu, b, 0, rest);
    lemma_bitlen_bounds(v);
    lemma2_to64(); lemma2_to64_rest();
    assert(b <= 32) by { if b > 32 { lemma_pow2_le(32, (b - 1) as nat); } }
    assert(rem.skip(b + 1) =~= rest);
    if b > 1 {
        let bs = msb_bits(v, (b - 1) as nat);
        lemma_nbits_inverse(hb, bs, tail);
        lemma_val_msb_bits(v, (b - 1) as nat);
        // v % 2^(b-1) + 2^(b-1) == v   because 2^(b-1) <= v < 2^b
        let p = pow2((b - 1) as nat) as int;
        lemma_pow2_unfold(b as nat);
        vstd::arithmetic::div_mod::lemma_fundamental_div_mod_converse(v as int, p, 1, v - p);
        assert(rest.skip(b - 1) =~= tail);
        assert(rem.skip(2 * b) =~= tail) by { assert(rem.skip(b + 1).skip(b - 1) =~= rem.skip(2 * b)); }
    } else {
        assert(rest =~= tail);
        if b == 0 { assert(v == 0); } else { assert(v == 1) by { assert(pow2(0) == 1 && pow2(1) == 2); } }
    }
}
