// ---- from the reader's view of a block (LZ77 expansion, U13/U16) to the predictor's view (tokens lie in the text) ----
pub open spec fn is_prefix(a: Seq<u8>, x: Seq<u8>) -> bool { a.len() <= x.len() && x.subrange(0, a.len() as int) == a }

pub proof fn lemma_apply_token_ext(text: Seq<u8>, t: PreflateToken)
    requires token_fits(text, t),
    ensures is_prefix(text, apply_token(text, t)), apply_token(text, t).len() == text.len() + tok_len(t),
{
    match t {
        PreflateToken::Literal(l) => { assert(text.push(l).subrange(0, text.len() as int) =~= text); }
        PreflateToken::Reference(r) => {
            lemma_lz_copy_len(text, r.dist as int, ref_len(r) as nat);
            assert(lz_copy(text, r.dist as int, ref_len(r) as nat).subrange(0, text.len() as int) =~= text);
        }
    }
}
/// what an LZ77 copy produces: every copied byte equals the byte `dist` before it
pub proof fn lemma_lz_copy_content(text: Seq<u8>, dist: int, n: nat)
    requires 1 <= dist <= text.len(),
    ensures forall|i: int| 0 <= i < n ==> #[trigger] lz_copy(text, dist, n)[text.len() + i] == lz_copy(text, dist, n)[text.len() + i - dist],
    decreases n
{
    if n > 0 {
        let m = (n - 1) as nat;
        lemma_lz_copy_content(text, dist, m);
        lemma_lz_copy_len(text, dist, m);
        lemma_lz_copy_len(text, dist, n);
        let t = lz_copy(text, dist, m);
        let u = lz_copy(text, dist, n);
        assert(u == t.push(t[t.len() - dist]));
        assert forall|i: int| 0 <= i < n implies #[trigger] u[text.len() + i] == u[text.len() + i - dist] by {
            if i < m { assert(u[text.len() + i] == t[text.len() + i]); assert(u[text.len() + i - dist] == t[text.len() + i - dist]); }
            else { assert(u[text.len() + i] == t[t.len() - dist]); assert(u[text.len() + i - dist] == t[t.len() - dist]); }
        }
    }
}
pub proof fn lemma_prefix_trans(a: Seq<u8>, b: Seq<u8>, x: Seq<u8>)
    requires is_prefix(a, b), is_prefix(b, x),
    ensures is_prefix(a, x),
{
    assert(x.subrange(0, a.len() as int) =~= a) by {
        assert forall|i: int| 0 <= i < a.len() implies x[i] == a[i] by {
            assert(x.subrange(0, b.len() as int)[i] == x[i]);
            assert(b.subrange(0, a.len() as int)[i] == b[i]);
        }
    }
}
/// the tokens of a block, as the reader expanded them, lie in every text that extends the expansion
pub proof fn lemma_toks_in_text(t0: Seq<u8>, ts: Seq<PreflateToken>, x: Seq<u8>)
    requires tokens_fit(t0, ts), forall|i: int| 0 <= i < ts.len() ==> token_ok(#[trigger] ts[i]), is_prefix(apply_tokens(t0, ts), x),
    ensures toks_in_text(x, t0.len() as int, ts), toks_pos(t0.len() as int, ts) == apply_tokens(t0, ts).len(), is_prefix(t0, x),
        ts.len() <= apply_tokens(t0, ts).len() - t0.len(),
    decreases ts.len()
{
    if ts.len() == 0 { } else {
        let pre = ts.drop_last(); let t = ts.last();
        let tp = apply_tokens(t0, pre);
        assert(token_ok(ts[ts.len() - 1]));
        assert forall|i: int| 0 <= i < pre.len() implies token_ok(#[trigger] pre[i]) by { assert(pre[i] == ts[i]); }
        lemma_apply_token_ext(tp, t);
        lemma_prefix_trans(tp, apply_token(tp, t), x);
        lemma_toks_in_text(t0, pre, x);
        let p = tp.len() as int;
        match t {
            PreflateToken::Literal(l) => {
                assert(x.subrange(0, apply_token(tp, t).len() as int)[p] == x[p]);
                assert(apply_token(tp, t)[p] == l);
            }
            PreflateToken::Reference(r) => {
                let n = ref_len(r) as nat; let d = r.dist as int;
                lemma_lz_copy_len(tp, d, n);
                lemma_lz_copy_content(tp, d, n);
                let a = apply_token(tp, t);
                assert forall|i: int| 0 <= i < n implies #[trigger] x[p + i] == x[p + i - d] by {
                    assert(x.subrange(0, a.len() as int)[p + i] == x[p + i]);
                    assert(x.subrange(0, a.len() as int)[p + i - d] == x[p + i - d]);
                    assert(a[p + i] == a[p + i - d]);
                }
            }
        }
    }
}
/// ... and so do all blocks of a stream, in every text that extends the stream's plaintext
pub proof fn lemma_blks_in_text(bs: Seq<PreflateTokenBlock>, x: Seq<u8>)
    requires blocks_fit(bs), forall|i: int| 0 <= i < bs.len() ==> block_coded(#[trigger] bs[i]), is_prefix(blocks_text(bs), x), x.len() < 0x7FFF_FFF0,
    ensures blks_in_text(x, 0, bs, false), blks_end(0, bs) == blocks_text(bs).len(),
    decreases bs.len()
{
    if bs.len() > 0 {
        let pre = bs.drop_last(); let b = bs.last();
        let tp = blocks_text(pre);
        assert(block_coded(bs[bs.len() - 1]));
        assert forall|i: int| 0 <= i < pre.len() implies block_coded(#[trigger] pre[i]) by { assert(pre[i] == bs[i]); }
        if b.block_type is Stored {
            assert((tp + b.uncompressed@).subrange(0, tp.len() as int) =~= tp);
            lemma_prefix_trans(tp, tp + b.uncompressed@, x);
            lemma_blks_in_text(pre, x);
            assert(blks_end(0, pre) == tp.len());
            assert(b.uncompressed@ =~= x.subrange(tp.len() as int, (tp.len() + b.uncompressed@.len()) as int)) by {
                assert forall|j: int| 0 <= j < b.uncompressed@.len() implies x[tp.len() + j] == b.uncompressed@[j] by {
                    assert(x.subrange(0, (tp + b.uncompressed@).len() as int)[tp.len() + j] == x[tp.len() + j]);
                }
            }
        } else {
            assert(forall|i: int| 0 <= i < b.tokens@.len() ==> token_ok(#[trigger] b.tokens@[i]));
            lemma_toks_in_text(tp, b.tokens@, x);
            lemma_blks_in_text(pre, x);
            assert(blks_end(0, pre) == tp.len());
            assert(blk_in_text(x, tp.len() as int, b, false));
        }
    }
}
/// the precondition of predict_blocks / recreate_blocks follows from what parse_deflate ensures
pub proof fn lemma_reader_to_predictor(bs: Seq<PreflateTokenBlock>)
    requires bs.len() >= 1, blocks_fit(bs), forall|i: int| 0 <= i < bs.len() ==> block_coded(#[trigger] bs[i]), blocks_text(bs).len() < 0x7FFF_FFF0,
    ensures blks_in_text(blocks_text(bs), 0, bs, true),
{
    let x = blocks_text(bs);
    assert(x.subrange(0, x.len() as int) =~= x);
    lemma_blks_in_text(bs, x);
    // the last block ends at the end of the text
    let pre = bs.drop_last(); let b = bs.last();
    assert(blks_end(0, bs) == x.len());
}

// ---- from the reader's view to the offset view the estimators use (spec/offs.rs) ----
pub proof fn lemma_toks_offs(t0: Seq<u8>, ts: Seq<PreflateToken>)
    requires tokens_fit(t0, ts),
    ensures toks_back_ok(t0.len() as int, ts), apply_tokens(t0, ts).len() == t0.len() + toks_span(ts),
    decreases ts.len()
{
    if ts.len() > 0 {
        let pre = ts.drop_last(); let t = ts.last();
        lemma_toks_offs(t0, pre);
        let tp = apply_tokens(t0, pre);
        match t {
            PreflateToken::Literal(l) => { }
            PreflateToken::Reference(r) => { lemma_lz_copy_len(tp, r.dist as int, ref_len(r) as nat); }
        }
    }
}
pub proof fn lemma_blocks_offs(bs: Seq<PreflateTokenBlock>)
    requires blocks_fit(bs),
    ensures blks_back_ok(bs), blks_span(bs) == blocks_text(bs).len(),
    decreases bs.len()
{
    if bs.len() > 0 {
        let pre = bs.drop_last(); let b = bs.last();
        lemma_blocks_offs(pre);
        if !(b.block_type is Stored) { lemma_toks_offs(blocks_text(pre), b.tokens@); }
    }
}
