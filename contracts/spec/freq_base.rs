// ---- token frequency view (TokenFrequency) ----
pub open spec fn wadd1(x: u16) -> u16 { if x == 65535 { 0u16 } else { (x + 1) as u16 } }
pub struct FreqV { pub lit: Seq<u16>, pub dist: Seq<u16> }
pub open spec fn freq_v(f: TokenFrequency) -> FreqV { FreqV { lit: f.literal_codes@, dist: f.distance_codes@ } }
/// TokenFrequency::default(): the end-of-block code counted once
pub open spec fn freq0() -> FreqV { FreqV { lit: Seq::new(316, |i: int| if i == 256 { 1u16 } else { 0u16 }), dist: Seq::new(30, |i: int| 0u16) } }
