// ---- running plaintext offset of a token stream, and "no reference points before the start" (estimators; C05) ----
pub open spec fn tok_span(t: PreflateToken) -> int { match t { PreflateToken::Literal(l) => 1, PreflateToken::Reference(r) => r.len as int + 3 } }
pub open spec fn toks_span(ts: Seq<PreflateToken>) -> int
    decreases ts.len()
{ if ts.len() == 0 { 0 } else { toks_span(ts.drop_last()) + tok_span(ts.last()) } }
/// every reference of ts points at most to the byte at offset 0, when ts starts at offset `off`
pub open spec fn toks_back_ok(off: int, ts: Seq<PreflateToken>) -> bool
    decreases ts.len()
{
    if ts.len() == 0 { true } else {
        toks_back_ok(off, ts.drop_last())
            && (ts.last() matches PreflateToken::Reference(r) ==> r.dist as int <= off + toks_span(ts.drop_last()))
    }
}
pub open spec fn blk_span(b: PreflateTokenBlock) -> int { if b.block_type is Stored { b.uncompressed@.len() as int } else { toks_span(b.tokens@) } }
pub open spec fn blks_span(bs: Seq<PreflateTokenBlock>) -> int
    decreases bs.len()
{ if bs.len() == 0 { 0 } else { blks_span(bs.drop_last()) + blk_span(bs.last()) } }
pub open spec fn blks_back_ok(bs: Seq<PreflateTokenBlock>) -> bool
    decreases bs.len()
{
    if bs.len() == 0 { true } else {
        blks_back_ok(bs.drop_last()) && (!(bs.last().block_type is Stored) ==> toks_back_ok(blks_span(bs.drop_last()), bs.last().tokens@))
    }
}
pub proof fn lemma_toks_span_nonneg(ts: Seq<PreflateToken>)
    ensures toks_span(ts) >= ts.len(),
    decreases ts.len()
{ if ts.len() > 0 { lemma_toks_span_nonneg(ts.drop_last()); } }
pub proof fn lemma_blks_span_nonneg(bs: Seq<PreflateTokenBlock>)
    ensures blks_span(bs) >= 0,
    decreases bs.len()
{ if bs.len() > 0 { lemma_blks_span_nonneg(bs.drop_last()); lemma_toks_span_nonneg(bs.last().tokens@); } }
/// prefixes: the offset only grows, and a prefix of a well-placed stream is well placed
pub proof fn lemma_toks_prefix(off: int, ts: Seq<PreflateToken>, k: int)
    requires 0 <= k <= ts.len(), toks_back_ok(off, ts),
    ensures toks_back_ok(off, ts.subrange(0, k)), toks_span(ts.subrange(0, k)) <= toks_span(ts),
        k < ts.len() ==> toks_span(ts.subrange(0, k + 1)) == toks_span(ts.subrange(0, k)) + tok_span(ts[k])
            && (ts[k] matches PreflateToken::Reference(r) ==> r.dist as int <= off + toks_span(ts.subrange(0, k))),
    decreases ts.len() - k
{
    if k == ts.len() { assert(ts.subrange(0, k) =~= ts); } else {
        lemma_toks_prefix(off, ts, k + 1);
        assert(ts.subrange(0, k + 1).drop_last() =~= ts.subrange(0, k));
        assert(ts.subrange(0, k + 1).last() == ts[k]);
        lemma_toks_span_nonneg(seq![ts[k]]);
    }
}
pub proof fn lemma_blks_prefix_span(bs: Seq<PreflateTokenBlock>, k: int)
    requires 0 <= k <= bs.len(), blks_back_ok(bs),
    ensures blks_back_ok(bs.subrange(0, k)), blks_span(bs.subrange(0, k)) <= blks_span(bs),
        k < bs.len() ==> blks_span(bs.subrange(0, k + 1)) == blks_span(bs.subrange(0, k)) + blk_span(bs[k])
            && (!(bs[k].block_type is Stored) ==> toks_back_ok(blks_span(bs.subrange(0, k)), bs[k].tokens@)),
    decreases bs.len() - k
{
    if k == bs.len() { assert(bs.subrange(0, k) =~= bs); } else {
        lemma_blks_prefix_span(bs, k + 1);
        assert(bs.subrange(0, k + 1).drop_last() =~= bs.subrange(0, k));
        assert(bs.subrange(0, k + 1).last() == bs[k]);
        lemma_toks_span_nonneg(bs[k].tokens@);
    }
}

pub proof fn lemma_blks_span_step(bs: Seq<PreflateTokenBlock>, k: int)
    requires 0 <= k < bs.len(),
    ensures blks_span(bs.subrange(0, k + 1)) == blks_span(bs.subrange(0, k)) + blk_span(bs[k]),
        blks_span(bs.subrange(0, k + 1)) <= blks_span(bs), blk_span(bs[k]) >= 0,
    decreases bs.len() - k
{
    assert(bs.subrange(0, k + 1).drop_last() =~= bs.subrange(0, k));
    assert(bs.subrange(0, k + 1).last() == bs[k]);
    lemma_toks_span_nonneg(bs[k].tokens@);
    if k + 1 == bs.len() { assert(bs.subrange(0, k + 1) =~= bs); } else {
        lemma_blks_span_step(bs, k + 1);
        lemma_blks_span_nonneg(bs.subrange(0, k + 1));
    }
}

pub proof fn lemma_toks_span_step(ts: Seq<PreflateToken>, k: int)
    requires 0 <= k < ts.len(),
    ensures toks_span(ts.subrange(0, k + 1)) == toks_span(ts.subrange(0, k)) + tok_span(ts[k]),
        toks_span(ts.subrange(0, k + 1)) <= toks_span(ts), toks_span(ts.subrange(0, k)) >= 0,
    decreases ts.len() - k
{
    assert(ts.subrange(0, k + 1).drop_last() =~= ts.subrange(0, k));
    assert(ts.subrange(0, k + 1).last() == ts[k]);
    lemma_toks_span_nonneg(ts.subrange(0, k));
    if k + 1 == ts.len() { assert(ts.subrange(0, k + 1) =~= ts); } else {
        lemma_toks_span_step(ts, k + 1);
        lemma_toks_span_nonneg(seq![ts[k + 1]]);
    }
}
