// ---- correction codec: ghost view, frozen operation format (C04/C10), inverse laws ----
/// ghost view of a PredictionCabacContext: the history of every adaptive cell, by coordinate
pub struct HistV {
    pub de: Seq<Seq<bool>>,
    pub den: Seq<Seq<bool>>,
    pub corr: Seq<Seq<Seq<bool>>>,
    pub corrb: Seq<Seq<Seq<bool>>>,
}

spec fn hview<CTX>(c: &PredictionCabacContext<CTX>) -> HistV {
    HistV {
        de: hists(c.default_encoding),
        den: hists(c.default_encoding_nbits),
        corr: Seq::new(10, |k: int| hists(c.correction[k])),
        corrb: Seq::new(10, |k: int| hists(c.correction_bits[k])),
    }
}

pub open spec fn hv_wf(h: HistV) -> bool {
    h.de.len() == 16 && h.den.len() == 16 && h.corr.len() == 10 && h.corrb.len() == 10
    && (forall|k: int| 0 <= k < 10 ==> (#[trigger] h.corr[k]).len() == 8)
    && (forall|k: int| 0 <= k < 10 ==> (#[trigger] h.corrb[k]).len() == 8)
}

/// one codec operation (C10): fixed-width value, misprediction flag, correction value
pub enum Op { Value(u16, u8), Mis(int, bool), Corr(int, u32) }

pub open spec fn op_ok(op: Op) -> bool {
    match op {
        Op::Value(v, nb) => 1 <= nb <= 16 && (v as nat) < vstd::arithmetic::power2::pow2(nb as nat),
        Op::Mis(c, b) => 0 <= c < 7,
        Op::Corr(c, v) => 0 <= c < 10 && v < 0x8000_0000,
    }
}

/// the default-table step: the flag value d (1 = "default / as predicted", 0 = "not default") through the default tables
pub open spec fn hv_default(h: HistV, d: nat) -> HistV {
    HistV { de: exp_hu(h.de, d), den: exp_hb(h.den, d), corr: h.corr, corrb: h.corrb }
}

pub open spec fn hv_corr(h: HistV, c: int, v: nat) -> HistV {
    HistV { de: h.de, den: h.den, corr: h.corr.update(c, exp_hu(h.corr[c], v)), corrb: h.corrb.update(c, exp_hb(h.corrb[c], v)) }
}

/// FROZEN FORMAT (C04/C10): symbols of one operation as the decoder consumes them, from cell histories h
pub open spec fn op_syms(h: HistV, op: Op) -> Seq<Sym> {
    match op {
        Op::Value(v, nb) => byp_syms(msb_bits(v as nat, nb as nat)),
        Op::Mis(c, b) => exp_syms(h.de, h.den, if b { 0 } else { 1 }),
        Op::Corr(c, v) => if v == 0 { exp_syms(h.de, h.den, 1) } else {
            exp_syms(h.de, h.den, 0) + exp_syms(hv_default(h, 0).corr[c], hv_default(h, 0).corrb[c], v as nat)
        },
    }
}

pub open spec fn op_next(h: HistV, op: Op) -> HistV {
    match op {
        Op::Value(v, nb) => h,
        Op::Mis(c, b) => hv_default(h, if b { 0 } else { 1 }),
        Op::Corr(c, v) => if v == 0 { hv_default(h, 1) } else { hv_corr(hv_default(h, 0), c, v as nat) },
    }
}

/// encoder side: a default operation is emitted lazily (default_count == 1 is pending)
pub open spec fn pend_syms(h: HistV, dc: u32) -> Seq<Sym> {
    if dc > 0 { exp_syms(h.de, h.den, dc as nat) } else { Seq::<Sym>::empty() }
}
pub open spec fn pend_view(h: HistV, dc: u32) -> HistV {
    if dc > 0 { hv_default(h, dc as nat) } else { h }
}


pub open spec fn hv_rd_default(h: HistV, rem: Seq<Sym>) -> HistV {
    HistV { de: exp_rd_hu(rem, h.de), den: exp_rd_hb(rem, h.de, h.den), corr: h.corr, corrb: h.corrb }
}

/// INVERSE LAW (one operation, C10): from cell histories h, the symbols of op followed by anything satisfy the
/// decoder's precondition for op's kind, decode to op's value, are consumed exactly, and leave histories op_next(h, op)
pub proof fn lemma_op_inverse_value(h: HistV, v: u16, nb: u8, tail: Seq<Sym>)
    requires op_ok(Op::Value(v, nb)),
    ensures ({
        let rem = op_syms(h, Op::Value(v, nb)) + tail;
        byp_ok(rem, nb as int) && val_of_bits(sym_bits(rem, nb as int)) == v as nat && rem.skip(nb as int) == tail
    }),
{
    let bs = msb_bits(v as nat, nb as nat);
    lemma_byp_inverse(bs, tail);
    lemma_val_msb_bits(v as nat, nb as nat);
    vstd::arithmetic::div_mod::lemma_small_mod(v as nat, vstd::arithmetic::power2::pow2(nb as nat));
    assert((byp_syms(bs) + tail).skip(nb as int) =~= tail);
}

pub proof fn lemma_op_inverse_flag(h: HistV, d: nat, tail: Seq<Sym>)
    requires hv_wf(h), d <= 1,
    ensures ({
        let rem = exp_syms(h.de, h.den, d) + tail;
        &&& exp_ok(rem, h.de, h.den)
        &&& exp_val(rem, h.de, h.den) == d
        &&& rem.skip(exp_len(rem, h.de, h.den)) == tail
        &&& hv_rd_default(h, rem) == hv_default(h, d)
    }),
{
    lemma_exp_inverse(h.de, h.den, d, tail);
}

pub proof fn lemma_op_inverse_corr(h: HistV, c: int, v: u32, tail: Seq<Sym>)
    requires hv_wf(h), 0 <= c < 10, 0 < v < 0x8000_0000,
    ensures ({
        let rem = op_syms(h, Op::Corr(c, v)) + tail;
        let rem1 = rem.skip(exp_len(rem, h.de, h.den));
        let h1 = hv_default(h, 0);
        &&& exp_ok(rem, h.de, h.den)
        &&& exp_val(rem, h.de, h.den) == 0
        &&& hv_rd_default(h, rem) == h1
        &&& exp_ok(rem1, h.corr[c], h.corrb[c])
        &&& exp_val(rem1, h.corr[c], h.corrb[c]) == v as nat
        &&& rem1.skip(exp_len(rem1, h.corr[c], h.corrb[c])) == tail
        &&& exp_rd_hu(rem1, h.corr[c]) == exp_hu(h.corr[c], v as nat)
        &&& exp_rd_hb(rem1, h.corr[c], h.corrb[c]) == exp_hb(h.corrb[c], v as nat)
    }),
{
    let e2 = exp_syms(h.corr[c], h.corrb[c], v as nat);
    let rem = op_syms(h, Op::Corr(c, v)) + tail;
    assert(rem =~= exp_syms(h.de, h.den, 0) + (e2 + tail));
    lemma_exp_inverse(h.de, h.den, 0, e2 + tail);
    lemma_exp_inverse(h.corr[c], h.corrb[c], v as nat, tail);
}

// ---- whole sequences ----
pub open spec fn all_next(h: HistV, ops: Seq<Op>) -> HistV
    decreases ops.len()
{
    if ops.len() == 0 { h } else { op_next(all_next(h, ops.drop_last()), ops.last()) }
}

pub open spec fn all_syms(h: HistV, ops: Seq<Op>) -> Seq<Sym>
    decreases ops.len()
{
    if ops.len() == 0 { Seq::<Sym>::empty() } else { all_syms(h, ops.drop_last()) + op_syms(all_next(h, ops.drop_last()), ops.last()) }
}

pub proof fn lemma_all_front(h: HistV, ops: Seq<Op>)
    requires ops.len() > 0,
    ensures
        all_syms(h, ops) == op_syms(h, ops[0]) + all_syms(op_next(h, ops[0]), ops.skip(1)),
        all_next(h, ops) == all_next(op_next(h, ops[0]), ops.skip(1)),
    decreases ops.len()
{
    if ops.len() == 1 {
        assert(ops.drop_last() =~= Seq::<Op>::empty());
        assert(ops.skip(1) =~= Seq::<Op>::empty());
        assert(ops.last() == ops[0]);
        assert(all_syms(h, ops.drop_last()) =~= Seq::<Sym>::empty());
        assert(all_next(h, ops.drop_last()) == h);
        assert(all_syms(h, ops) =~= Seq::<Sym>::empty() + op_syms(h, ops[0]));
        assert(all_syms(h, ops) =~= op_syms(h, ops[0]));
        assert(op_syms(h, ops[0]) + Seq::<Sym>::empty() =~= op_syms(h, ops[0]));
    } else {
        let d = ops.drop_last();
        lemma_all_front(h, d);
        assert(d[0] == ops[0]);
        assert(d.skip(1) =~= ops.skip(1).drop_last());
        assert(ops.skip(1).last() == ops.last());
        let h1 = op_next(h, ops[0]);
        assert(all_syms(h, ops) =~= op_syms(h, ops[0]) + (all_syms(h1, ops.skip(1).drop_last()) + op_syms(all_next(h1, ops.skip(1).drop_last()), ops.last())));
    }
}

pub proof fn lemma_op_next_wf(h: HistV, op: Op)
    requires hv_wf(h), op_ok(op),
    ensures hv_wf(op_next(h, op)),
{
    assert forall|x: Seq<Seq<bool>>, v: nat| #[trigger] exp_hu(x, v).len() == x.len() by {}
    assert forall|x: Seq<Seq<bool>>, v: nat| #[trigger] exp_hb(x, v).len() == x.len() by {}
    match op {
        Op::Value(v, nb) => {},
        Op::Mis(c, b) => {},
        Op::Corr(c, v) => {
            if v != 0 {
                let h1 = hv_default(h, 0);
                let h2 = hv_corr(h1, c, v as nat);
                assert(h1.corr == h.corr && h1.corrb == h.corrb);
                assert(h.corr[c].len() == 8 && h.corrb[c].len() == 8);
                assert(exp_hu(h1.corr[c], v as nat).len() == 8);
                assert(exp_hb(h1.corrb[c], v as nat).len() == 8);
                assert forall|k: int| 0 <= k < 10 implies (#[trigger] h2.corr[k]).len() == 8 by {
                    if k != c { assert(h2.corr[k] == h.corr[k]); }
                }
                assert forall|k: int| 0 <= k < 10 implies (#[trigger] h2.corrb[k]).len() == 8 by {
                    if k != c { assert(h2.corrb[k] == h.corrb[k]); }
                }
            }
        },
    }
}


/// ASSUMED (derive(Default)): a default context has all cells at one fixed initial history and zero counters
pub uninterp spec fn h_init<CTX>() -> HistV;
#[verifier::external_body]
pub proof fn axiom_h_init_wf<CTX>()
    ensures hv_wf(h_init::<CTX>()),
{}

pub open spec fn ops_ok(ops: Seq<Op>) -> bool { forall|i: int| 0 <= i < ops.len() ==> op_ok(#[trigger] ops[i]) }

/// statistics counters (u32) cannot overflow while fewer than OPS_LIMIT operations have been encoded
pub open spec fn ops_limit() -> nat { 0x0FFF_FFF0 }


// ---- trait-level helpers ----
pub open spec fn is_value(op: Op, nb: u8) -> bool { op matches Op::Value(v, n) && n == nb }
pub open spec fn value_of(op: Op) -> u16 { match op { Op::Value(v, n) => v, _ => 0 } }
pub open spec fn is_mis(op: Op, c: int) -> bool { op matches Op::Mis(k, b) && k == c }
pub open spec fn mis_of(op: Op) -> bool { match op { Op::Mis(k, b) => b, _ => false } }
pub open spec fn is_corr(op: Op, c: int) -> bool { op matches Op::Corr(k, v) && k == c }
pub open spec fn corr_of(op: Op) -> u32 { match op { Op::Corr(k, v) => v, _ => 0 } }
