// ---- writer-side view (BitWriter, HuffmanWriter): U14, U15 ----
pub open spec fn wbits(w: BitWriter, buf: Seq<u8>) -> Seq<bool> {
    bytes_bits(buf) + lsb_bits(w.bit_buffer as nat, w.bits_in as nat)
}
pub open spec fn bw_wf(w: BitWriter) -> bool {
    w.bits_in < 8 && (w.bit_buffer as nat) < vstd::arithmetic::power2::pow2(w.bits_in as nat)
}

pub open spec fn hw_wf(hw: HuffmanWriter) -> bool {
    &&& hw.lit_huffman_codes@.len() == hw.lit_code_lengths@.len()
    &&& hw.dist_huffman_codes@.len() == hw.dist_code_lengths@.len()
    &&& forall|s: int| 0 <= s < hw.lit_code_lengths@.len() ==> hw.lit_code_lengths@[s] <= 15
            && (hw.lit_huffman_codes@[s] as nat) < vstd::arithmetic::power2::pow2(#[trigger] hw.lit_code_lengths@[s] as nat)
    &&& forall|s: int| 0 <= s < hw.dist_code_lengths@.len() ==> hw.dist_code_lengths@[s] <= 15
            && (hw.dist_huffman_codes@[s] as nat) < vstd::arithmetic::power2::pow2(#[trigger] hw.dist_code_lengths@[s] as nat)
}
pub open spec fn lit_bits(hw: HuffmanWriter, s: int) -> Seq<bool> { lsb_bits(hw.lit_huffman_codes@[s] as nat, hw.lit_code_lengths@[s] as nat) }
pub open spec fn dist_bits(hw: HuffmanWriter, s: int) -> Seq<bool> { lsb_bits(hw.dist_huffman_codes@[s] as nat, hw.dist_code_lengths@[s] as nat) }

/// RFC 1951 3.2.5: bits of one token. A reference is <length symbol> <length extra bits> <distance symbol> <distance
/// extra bits>; the non-canonical form of length 258 is symbol 284 with all five extra bits set -- and the distance
/// follows in BOTH forms.
pub open spec fn token_bits(hw: HuffmanWriter, t: PreflateToken) -> Seq<bool> {
    match t {
        PreflateToken::Literal(l) => lit_bits(hw, l as int),
        PreflateToken::Reference(r) => {
            let len = ref_len(r); let dist = r.dist as u32;
            let lpart = if r.irregular258 { lit_bits(hw, 284) + lsb_bits(31, 5) } else {
                let q = len_code(len);
                lit_bits(hw, 257 + q) + lsb_bits((len - 3 - LENGTH_BASE_TABLE[q]) as nat, LENGTH_EXTRA_TABLE[q] as nat)
            };
            let d = dist_code(dist);
            lpart + dist_bits(hw, d) + lsb_bits((dist - 1 - DIST_BASE_TABLE[d]) as nat, DIST_EXTRA_TABLE[d] as nat)
        }
    }
}
pub open spec fn tokens_bits(hw: HuffmanWriter, ts: Seq<PreflateToken>) -> Seq<bool>
    decreases ts.len()
{
    if ts.len() == 0 { Seq::<bool>::empty() } else { tokens_bits(hw, ts.drop_last()) + token_bits(hw, ts.last()) }
}


/// the code lengths of a writer, as a Codes value
pub open spec fn hw_codes(hw: HuffmanWriter) -> Codes { Codes { ll: hw.lit_code_lengths@, dl: hw.dist_code_lengths@ } }
