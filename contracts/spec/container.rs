// ---- frozen container format (C01/C04): chunk tags, varints, payloads, IDAT descriptor, PNG chunk framing ----
/// A-DET: recompress_deflate_stream is a function of its two arguments (None = Err)
pub uninterp spec fn recompress_spec(pt: Seq<u8>, cor: Seq<u8>) -> Option<Seq<u8>>;
/// crc32 is a function of the bytes fed to the hasher
pub uninterp spec fn crc32_spec(data: Seq<u8>) -> u32;

pub open spec fn all_nonzero(s: Seq<u32>) -> bool { forall|i: int| 0 <= i < s.len() ==> s[i] != 0 }

pub open spec fn idat_tag() -> Seq<u8> { seq![0x49u8, 0x44u8, 0x41u8, 0x54u8] }

/// PNG framing of the byte string z cut into pieces of the given sizes
pub open spec fn idat_chunks(sizes: Seq<u32>, z: Seq<u8>) -> Seq<u8>
    decreases sizes.len()
{
    if sizes.len() == 0 { Seq::<u8>::empty() } else {
        let k = sizes[0] as int;
        be32(sizes[0]) + idat_tag() + z.subrange(0, k) + be32(crc32_spec(idat_tag() + z.subrange(0, k)))
            + idat_chunks(sizes.skip(1), z.skip(k))
    }
}

pub open spec fn idat_bytes(sizes: Seq<u32>, hdr: Seq<u8>, adler: u32, stream: Seq<u8>) -> Seq<u8> {
    idat_chunks(sizes, hdr + stream + be32(adler))
}

// ---- which IDAT runs the parser accepts (C06): consecutive, complete, non-empty IDAT chunks with matching CRC ----
pub struct IdatRun { pub sizes: Seq<u32>, pub z: Seq<u8>, pub ok: bool }
/// s starts with a complete, non-empty IDAT chunk (length, "IDAT", payload and CRC field all inside s): its payload length
pub open spec fn idat_chunk_at(s: Seq<u8>) -> Option<int> {
    if s.len() >= 8 && s.subrange(4, 8) == idat_tag() && be32_val(s.subrange(0, 4)) != 0 && be32_val(s.subrange(0, 4)) + 12 <= s.len() {
        Some(be32_val(s.subrange(0, 4)) as int)
    } else { None }
}
/// the maximal run of such chunks at the start of s: payload sizes, concatenated payload; ok = every CRC matched
#[verifier::opaque]
pub open spec fn idat_run(s: Seq<u8>) -> IdatRun
    decreases s.len()
{
    match idat_chunk_at(s) {
        None => IdatRun { sizes: Seq::<u32>::empty(), z: Seq::<u8>::empty(), ok: true },
        Some(l) => {
            let body = s.subrange(8, 8 + l);
            if be32_val(s.subrange(8 + l, 12 + l)) != crc32_spec(idat_tag() + body) {
                IdatRun { sizes: Seq::<u32>::empty(), z: Seq::<u8>::empty(), ok: false }
            } else {
                let r = idat_run(s.skip(12 + l));
                IdatRun { sizes: seq![l as u32] + r.sizes, z: body + r.z, ok: r.ok }
            }
        }
    }
}
pub open spec fn run_cat(sizes: Seq<u32>, z: Seq<u8>, r: IdatRun) -> IdatRun {
    IdatRun { sizes: sizes + r.sizes, z: z + r.z, ok: r.ok }
}
pub proof fn lemma_idat_run_none(s: Seq<u8>)
    requires idat_chunk_at(s) is None,
    ensures idat_run(s) == (IdatRun { sizes: Seq::<u32>::empty(), z: Seq::<u8>::empty(), ok: true }),
{ reveal_with_fuel(idat_run, 1); }
pub proof fn lemma_idat_run_bad(s: Seq<u8>, l: int)
    requires idat_chunk_at(s) == Some(l), be32_val(s.subrange(8 + l, 12 + l)) != crc32_spec(idat_tag() + s.subrange(8, 8 + l)),
    ensures !idat_run(s).ok,
{ reveal_with_fuel(idat_run, 1); }
/// one loop iteration of the parser: a chunk with matching CRC at s.skip(pos) moves into the accumulated part
pub proof fn lemma_idat_run_step(s: Seq<u8>, pos: int, sizes: Seq<u32>, z: Seq<u8>, l: int)
    requires 0 <= pos <= s.len(), idat_chunk_at(s.skip(pos)) == Some(l),
        be32_val(s.subrange(pos + 8 + l, pos + 12 + l)) == crc32_spec(idat_tag() + s.subrange(pos + 8, pos + 8 + l)),
        idat_run(s).ok ==> idat_run(s) == run_cat(sizes, z, idat_run(s.skip(pos))),
        idat_run(s).ok == idat_run(s.skip(pos)).ok,
    ensures
        idat_run(s).ok ==> idat_run(s) == run_cat(sizes.push(l as u32), z + s.subrange(pos + 8, pos + 8 + l), idat_run(s.skip(pos + 12 + l))),
        idat_run(s).ok == idat_run(s.skip(pos + 12 + l)).ok,
{
    reveal_with_fuel(idat_run, 1);
    let t = s.skip(pos);
    assert(t.subrange(8, 8 + l) =~= s.subrange(pos + 8, pos + 8 + l));
    assert(t.subrange(8 + l, 12 + l) =~= s.subrange(pos + 8 + l, pos + 12 + l));
    assert(t.skip(12 + l) =~= s.skip(pos + 12 + l));
    let r = idat_run(s.skip(pos + 12 + l));
    let body = s.subrange(pos + 8, pos + 8 + l);
    assert(idat_run(t) == IdatRun { sizes: seq![l as u32] + r.sizes, z: body + r.z, ok: r.ok });
    assert(sizes + (seq![l as u32] + r.sizes) =~= sizes.push(l as u32) + r.sizes);
    assert(z + (body + r.z) =~= (z + body) + r.z);
}
/// C06, IDAT: a well-formed run (every chunk non-empty, CRCs as PNG defines them) followed by bytes that do not begin a
/// further complete IDAT chunk -- in particular followed by nothing -- is accepted as exactly that run
pub proof fn lemma_idat_run_complete(s: Seq<u8>, sizes: Seq<u32>, z: Seq<u8>)
    requires all_nonzero(sizes), sum_u32(sizes) == z.len(),
        z.len() + 12 * sizes.len() <= s.len(),
        s.subrange(0, (z.len() + 12 * sizes.len()) as int) == idat_chunks(sizes, z),
        idat_chunk_at(s.skip((z.len() + 12 * sizes.len()) as int)) is None,
    ensures idat_run(s) == (IdatRun { sizes: sizes, z: z, ok: true }),
    decreases sizes.len()
{
    reveal_with_fuel(idat_run, 1);
    let n = (z.len() + 12 * sizes.len()) as int;
    if sizes.len() == 0 {
        assert(s.skip(0) =~= s);
        assert(sizes =~= Seq::<u32>::empty()); assert(z =~= Seq::<u8>::empty());
    } else {
        let k = sizes[0] as int;
        assert(sizes[0] != 0);
        let rest = sizes.skip(1); let zr = z.skip(k);
        assert(sum_u32(sizes) == sizes[0] as nat + sum_u32(rest));
        let body = z.subrange(0, k);
        let crc = crc32_spec(idat_tag() + body);
        lemma_be32_inverse(sizes[0]); lemma_be32_inverse(crc);
        let head = be32(sizes[0]) + idat_tag() + body + be32(crc);
        let pre = s.subrange(0, n);
        assert(pre == head + idat_chunks(rest, zr));
        assert(head.len() == k + 12);
        assert(s.subrange(0, 4) =~= be32(sizes[0])) by { assert forall|i: int| 0 <= i < 4 implies s[i] == be32(sizes[0])[i] by { assert(s[i] == pre[i]); assert(pre[i] == head[i]); } }
        assert(s.subrange(4, 8) =~= idat_tag()) by { assert forall|i: int| 0 <= i < 4 implies s[4 + i] == idat_tag()[i] by { assert(s[4 + i] == pre[4 + i]); assert(pre[4 + i] == head[4 + i]); } }
        assert(s.subrange(8, 8 + k) =~= body) by { assert forall|i: int| 0 <= i < k implies s[8 + i] == body[i] by { assert(s[8 + i] == pre[8 + i]); assert(pre[8 + i] == head[8 + i]); } }
        assert(s.subrange(8 + k, 12 + k) =~= be32(crc)) by { assert forall|i: int| 0 <= i < 4 implies s[8 + k + i] == be32(crc)[i] by { assert(s[8 + k + i] == pre[8 + k + i]); assert(pre[8 + k + i] == head[8 + k + i]); } }
        assert(idat_chunk_at(s) == Some(k));
        let t = s.skip(12 + k);
        let m = (zr.len() + 12 * rest.len()) as int;
        assert(m == n - 12 - k);
        assert(t.subrange(0, m) =~= idat_chunks(rest, zr)) by {
            assert forall|i: int| 0 <= i < m implies t[i] == idat_chunks(rest, zr)[i] by { assert(t[i] == pre[12 + k + i]); assert(pre[12 + k + i] == (head + idat_chunks(rest, zr))[12 + k + i]); }
            lemma_idat_chunks_len(rest, zr);
        }
        assert(t.skip(m) =~= s.skip(n));
        lemma_idat_run_complete(t, rest, zr);
        assert(seq![k as u32] + rest =~= sizes);
        assert(body + zr =~= z);
    }
}
pub proof fn lemma_idat_chunks_len(sizes: Seq<u32>, z: Seq<u8>)
    requires sum_u32(sizes) == z.len(),
    ensures idat_chunks(sizes, z).len() == z.len() + 12 * sizes.len(),
    decreases sizes.len()
{
    if sizes.len() > 0 {
        let k = sizes[0] as int;
        lemma_be32_inverse(sizes[0]); lemma_be32_inverse(crc32_spec(idat_tag() + z.subrange(0, k)));
        lemma_idat_chunks_len(sizes.skip(1), z.skip(k));
    }
}

pub open spec fn varints(sizes: Seq<u32>) -> Seq<u8>
    decreases sizes.len()
{
    if sizes.len() == 0 { Seq::<u8>::empty() } else { varint(sizes[0] as nat) + varints(sizes.skip(1)) }
}

/// writer side: IDAT descriptor = nonzero varints, 0, two zlib header bytes, big-endian Adler-32
pub open spec fn idat_desc(sizes: Seq<u32>, hdr: Seq<u8>, adler: u32) -> Seq<u8> {
    varints(sizes) + seq![0u8] + hdr + be32(adler)
}

/// reader side of the size list: (sizes, bytes consumed including the terminator)
pub open spec fn parse_sizes(s: Seq<u8>) -> Option<(Seq<u32>, nat)>
    decreases s.len()
{
    match parse_varint(s) {
        None => None,
        Some((v, k)) =>
            if k == 0 || k > s.len() || k > 5 || v >= 0x100000000 { None }
            else if v == 0 { Some((Seq::<u32>::empty(), k)) }
            else {
                match parse_sizes(s.skip(k as int)) {
                    None => None,
                    Some((rest, j)) => Some((seq![v as u32] + rest, k + j)),
                }
            }
    }
}

pub struct IdatDescV { pub sizes: Seq<u32>, pub hdr: Seq<u8>, pub adler: u32, pub len: nat }

pub open spec fn parse_idat_desc(s: Seq<u8>) -> Option<IdatDescV> {
    match parse_sizes(s) {
        None => None,
        Some((sizes, k)) =>
            if k + 6 > s.len() { None }
            else { Some(IdatDescV { sizes, hdr: s.subrange(k as int, k + 2 as int), adler: be32_val(s.subrange(k + 2 as int, k + 6 as int)), len: k + 6 }) }
    }
}

/// length-prefixed byte string: (payload, bytes consumed)
pub open spec fn parse_blob(s: Seq<u8>) -> Option<(Seq<u8>, nat)> {
    match parse_varint(s) {
        None => None,
        Some((n, k)) =>
            if k > 5 || n >= 0x100000000 || k + n > s.len() { None }
            else { Some((s.subrange(k as int, (k + n) as int), k + n)) }
    }
}

/// plaintext + corrections: (plaintext, corrections, consumed)
pub open spec fn parse_stream_pair(s: Seq<u8>) -> Option<(Seq<u8>, Seq<u8>, nat)> {
    match parse_blob(s) {
        None => None,
        Some((pt, a)) => match parse_blob(s.skip(a as int)) {
            None => None,
            Some((cor, b)) => Some((pt, cor, a + b)),
        }
    }
}

/// READER-SIDE SEMANTICS of one chunk: (bytes it reconstructs, container bytes consumed)
#[verifier::opaque]
pub open spec fn recreate_chunk(s: Seq<u8>) -> Option<(Seq<u8>, nat)> {
    if s.len() == 0 { None }
    else if s[0] == 0 {
        match parse_blob(s.skip(1)) { None => None, Some((b, k)) => Some((b, 1 + k)) }
    } else if s[0] == 1 {
        match parse_stream_pair(s.skip(1)) {
            None => None,
            Some((pt, cor, k)) => match recompress_spec(pt, cor) { None => None, Some(d) => Some((d, 1 + k)) }
        }
    } else if s[0] == 2 {
        match parse_idat_desc(s.skip(1)) {
            None => None,
            Some(dv) => match parse_stream_pair(s.skip(1 + dv.len as int)) {
                None => None,
                Some((pt, cor, k)) => match recompress_spec(pt, cor) {
                    None => None,
                    Some(d) => if sum_u32(dv.sizes) == d.len() + 6 && sum_u32(dv.sizes) + 6 <= 0xFFFF_FFFF {
                        Some((idat_bytes(dv.sizes, dv.hdr, dv.adler, d), 1 + dv.len + k))
                    } else { None }
                }
            }
        }
    } else { None }
}

/// READER-SIDE SEMANTICS of a chunk sequence (everything after the version byte)
pub open spec fn recreate_all(s: Seq<u8>) -> Option<Seq<u8>>
    decreases s.len()
{
    if s.len() == 0 { Some(Seq::<u8>::empty()) }
    else {
        match recreate_chunk(s) {
            None => None,
            Some((o, k)) => if k == 0 || k > s.len() { None } else {
                match recreate_all(s.skip(k as int)) { None => None, Some(r) => Some(o + r) }
            }
        }
    }
}

pub open spec fn recreate_container(s: Seq<u8>) -> Option<Seq<u8>> {
    if s.len() >= 1 && s[0] == 1 { recreate_all(s.skip(1)) } else { None }
}

// ---- unfolding lemmas for the opaque recreate_chunk (keep exec-function queries small) ----
pub proof fn lemma_rc_tag(s: Seq<u8>)
    requires recreate_chunk(s) is Some,
    ensures s.len() > 0, s[0] <= 2,
{ reveal(recreate_chunk); }

pub proof fn lemma_rc_literal(s: Seq<u8>)
    requires s.len() > 0, s[0] == 0, recreate_chunk(s) is Some,
    ensures
        parse_blob(s.skip(1)) is Some,
        recreate_chunk(s) == Some((parse_blob(s.skip(1))->Some_0.0, 1 + parse_blob(s.skip(1))->Some_0.1)),
{ reveal(recreate_chunk); }

pub proof fn lemma_rc_deflate(s: Seq<u8>)
    requires s.len() > 0, s[0] == 1, recreate_chunk(s) is Some,
    ensures
        parse_stream_pair(s.skip(1)) is Some,
        ({ let p = parse_stream_pair(s.skip(1))->Some_0;
           recompress_spec(p.0, p.1) is Some
           && recreate_chunk(s) == Some((recompress_spec(p.0, p.1)->Some_0, 1 + p.2)) }),
{ reveal(recreate_chunk); }

pub proof fn lemma_rc_idat(s: Seq<u8>)
    requires s.len() > 0, s[0] == 2, recreate_chunk(s) is Some,
    ensures
        parse_idat_desc(s.skip(1)) is Some,
        ({ let dv = parse_idat_desc(s.skip(1))->Some_0;
           parse_stream_pair(s.skip(1 + dv.len as int)) is Some
           && ({ let p = parse_stream_pair(s.skip(1 + dv.len as int))->Some_0;
                 recompress_spec(p.0, p.1) is Some
                 && sum_u32(dv.sizes) == recompress_spec(p.0, p.1)->Some_0.len() + 6
                 && sum_u32(dv.sizes) + 6 <= 0xFFFF_FFFF
                 && recreate_chunk(s) == Some((idat_bytes(dv.sizes, dv.hdr, dv.adler, recompress_spec(p.0, p.1)->Some_0), 1 + dv.len + p.2)) }) }),
{ reveal(recreate_chunk); }

pub proof fn lemma_stream_pair(s: Seq<u8>)
    requires parse_stream_pair(s) is Some,
    ensures
        parse_blob(s) is Some,
        parse_blob(s.skip(parse_blob(s)->Some_0.1 as int)) is Some,
        parse_stream_pair(s) == Some((parse_blob(s)->Some_0.0, parse_blob(s.skip(parse_blob(s)->Some_0.1 as int))->Some_0.0,
            parse_blob(s)->Some_0.1 + parse_blob(s.skip(parse_blob(s)->Some_0.1 as int))->Some_0.1)),
{}

pub proof fn lemma_blob(s: Seq<u8>)
    requires parse_blob(s) is Some,
    ensures
        varint32_ok(s),
        ({ let n = parse_varint(s)->Some_0.0; let k = parse_varint(s)->Some_0.1;
           1 <= k && k + n <= s.len() && parse_blob(s) == Some((s.subrange(k as int, (k + n) as int), k + n)) }),
{ lemma_parse_varint_bounds(s); }

pub proof fn lemma_pair_read(s2: Seq<u8>, segment: Seq<u8>, corrections: Seq<u8>, ka: int, length: int, kb: int, clen: int)
    requires
        parse_stream_pair(s2) is Some,
        parse_varint(s2) == Some((length as nat, ka as nat)), 0 <= ka, 0 <= length,
        segment == s2.subrange(ka, ka + length),
        parse_varint(s2.skip(ka + length)) == Some((clen as nat, kb as nat)), 0 <= kb, 0 <= clen,
        corrections == s2.skip(ka + length).subrange(kb, kb + clen),
    ensures
        parse_stream_pair(s2) == Some((segment, corrections, (ka + length + kb + clen) as nat)),
        ka + length + kb + clen <= s2.len(),
{
    lemma_stream_pair(s2);
    lemma_blob(s2);
    lemma_blob(s2.skip(ka + length));
}

pub proof fn lemma_rc_final_deflate(s: Seq<u8>, pt: Seq<u8>, cor: Seq<u8>, kk: nat, d: Seq<u8>)
    requires s.len() > 0, s[0] == 1, parse_stream_pair(s.skip(1)) == Some((pt, cor, kk)), recompress_spec(pt, cor) == Some(d),
    ensures recreate_chunk(s) == Some((d, 1 + kk)),
{ reveal(recreate_chunk); }

pub proof fn lemma_rc_final_idat(s: Seq<u8>, dv: IdatDescV, pt: Seq<u8>, cor: Seq<u8>, kk: nat, d: Seq<u8>)
    requires
        s.len() > 0, s[0] == 2, recreate_chunk(s) is Some, parse_idat_desc(s.skip(1)) == Some(dv),
        parse_stream_pair(s.skip(1 + dv.len as int)) == Some((pt, cor, kk)), recompress_spec(pt, cor) == Some(d),
    ensures
        recreate_chunk(s) == Some((idat_bytes(dv.sizes, dv.hdr, dv.adler, d), 1 + dv.len + kk)),
        sum_u32(dv.sizes) == d.len() + 6,
{ reveal(recreate_chunk); }
