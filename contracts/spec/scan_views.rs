// ---- ghost view of the scanner's chunk list ----
pub open spec fn idat_v(d: IdatContents) -> IdatV {
    IdatV { sizes: d.chunk_sizes@, hdr: d.zlib_header@, adler: d.addler32, total: d.total_chunk_length as nat }
}
pub open spec fn chunk_view(c: BlockChunk) -> ChunkV {
    match c {
        BlockChunk::Literal(n) => ChunkV::Lit(n as nat),
        BlockChunk::DeflateStream(res) => ChunkV::Def(res_view(res)),
        BlockChunk::IDATDeflate(d, res) => ChunkV::Idat(idat_v(d), res_view(res)),
    }
}
pub open spec fn views(cs: Seq<BlockChunk>) -> Seq<ChunkV> { Seq::new(cs.len(), |i: int| chunk_view(cs[i])) }

pub proof fn lemma_views_push2(cs: Seq<BlockChunk>, a: BlockChunk, b: BlockChunk)
    ensures views(cs.push(a).push(b)) == views(cs) + seq![chunk_view(a), chunk_view(b)],
{
    assert(views(cs.push(a).push(b)) =~= views(cs) + seq![chunk_view(a), chunk_view(b)]);
}
pub proof fn lemma_views_push1(cs: Seq<BlockChunk>, a: BlockChunk)
    ensures views(cs.push(a)) == views(cs) + seq![chunk_view(a)],
{
    assert(views(cs.push(a)) =~= views(cs) + seq![chunk_view(a)]);
}

