// ---- DEFLATE token alphabet (RFC 1951 3.2.5): shared by reader (U13) and writer (U14, U15) ----
/// token-alphabet facts of the real tables and quantize functions, for every length 3..=258 and every distance
/// 1..=32768: DISCHARGED BY THE COMPLETE KANI HARNESSES U10.tables (quantize_length_all, quantize_distance_all,
/// tables_match_rfc), assumed here
#[verifier::external_body]
pub proof fn axiom_u10_length(len: u32)
    requires 3 <= len <= 258,
    ensures ({
        let q = len_code(len);
        q == LENGTH_CODE_TABLE[len as int - 3] as int && 0 <= q < 29 && LENGTH_EXTRA_TABLE[q] <= 5 && 3 + LENGTH_BASE_TABLE[q] <= len
            && ((len - 3 - LENGTH_BASE_TABLE[q]) as nat) < vstd::arithmetic::power2::pow2(LENGTH_EXTRA_TABLE[q] as nat)
    }),
{}
#[verifier::external_body]
pub proof fn axiom_u10_distance(dist: u32)
    requires 1 <= dist <= 32768,
    ensures ({
        let i: int = if dist <= 256 { dist - 1 } else { 256 + ((dist - 1) / 128) };
        let q = dist_code(dist);
        q == DIST_CODE_TABLE[i] as int && 0 <= i < 512 && 0 <= q < 30 && DIST_EXTRA_TABLE[q] <= 13 && 1 + DIST_BASE_TABLE[q] <= dist
            && ((dist - 1 - DIST_BASE_TABLE[q]) as nat) < vstd::arithmetic::power2::pow2(DIST_EXTRA_TABLE[q] as nat)
    }),
{}

#[verifier::opaque]
pub open spec fn len_code(len: u32) -> int { LENGTH_CODE_TABLE[len as int - 3] as int }
#[verifier::opaque]
pub open spec fn dist_code(dist: u32) -> int {
    DIST_CODE_TABLE[if dist <= 256 { dist as int - 1 } else { 256 + ((dist as int - 1) / 128) }] as int
}

pub open spec fn ref_len(r: PreflateTokenReference) -> u32 { (r.len as u32 + 3) as u32 }
pub open spec fn token_ok(t: PreflateToken) -> bool {
    match t { PreflateToken::Literal(l) => true, PreflateToken::Reference(r) => 1 <= r.dist <= 32768 && (r.irregular258 ==> ref_len(r) == 258) }
}


/// reader direction of the token alphabet: for every length code q and every value e of its extra bits the decoded
/// length maps back to q, except the non-canonical form of 258. DISCHARGED BY THE COMPLETE KANI HARNESS
/// U10.tables::dequantize_length_all, assumed here
#[verifier::external_body]
pub proof fn axiom_u10_dequant_length(q: int, e: int)
    requires 0 <= q < 29, 0 <= e, (e as nat) < vstd::arithmetic::power2::pow2(LENGTH_EXTRA_TABLE[q] as nat),
    ensures ({
        let len = 3 + LENGTH_BASE_TABLE[q] + e;
        3 <= len <= 258 && LENGTH_EXTRA_TABLE[q] <= 5
            && (if q == 27 && e == 31 { len == 258 } else { len_code(len as u32) == q && ((len == 258) == (q == 28)) })
    }),
{}
/// ... and for every distance code (U10.tables::dequantize_distance_all)
#[verifier::external_body]
pub proof fn axiom_u10_dequant_distance(q: int, e: int)
    requires 0 <= q < 30, 0 <= e, (e as nat) < vstd::arithmetic::power2::pow2(DIST_EXTRA_TABLE[q] as nat),
    ensures ({
        let dist = 1 + DIST_BASE_TABLE[q] + e;
        1 <= dist <= 32768 && DIST_EXTRA_TABLE[q] <= 13 && dist_code(dist as u32) == q
    }),
{}

/// widths of the extra-bit fields (asserted for every code by U10.tables::dequantize_*_all)
#[verifier::external_body]
pub proof fn axiom_u10_extra_bounds()
    ensures forall|q: int| 0 <= q < 29 ==> #[trigger] LENGTH_EXTRA_TABLE[q] <= 5,
        forall|q: int| 0 <= q < 30 ==> #[trigger] DIST_EXTRA_TABLE[q] <= 13,
{}

// ---- Huffman codes as a function of the code lengths: canon / tree_for / sym_bits are defined in huffman.rs (U21) ----
pub struct Codes { pub ll: Seq<u8>, pub dl: Seq<u8> }

/// RFC 1951 3.2.5: bits of one token under the code lengths c (see token_bits in deflate_hw for the writer view)
pub open spec fn token_bits_c(c: Codes, t: PreflateToken) -> Seq<bool> {
    match t {
        PreflateToken::Literal(l) => sym_bits(c.ll, l as int),
        PreflateToken::Reference(r) => {
            let len = ref_len(r); let dist = r.dist as u32;
            let lpart = if r.irregular258 { sym_bits(c.ll, 284) + lsb_bits(31, 5) } else {
                let q = len_code(len);
                sym_bits(c.ll, 257 + q) + lsb_bits((len - 3 - LENGTH_BASE_TABLE[q]) as nat, LENGTH_EXTRA_TABLE[q] as nat)
            };
            let d = dist_code(dist);
            lpart + sym_bits(c.dl, d) + lsb_bits((dist - 1 - DIST_BASE_TABLE[d]) as nat, DIST_EXTRA_TABLE[d] as nat)
        }
    }
}
/// every symbol the token needs exists in the code (is below the number of code lengths)
pub open spec fn tok_syms_ok(c: Codes, t: PreflateToken) -> bool {
    match t {
        PreflateToken::Literal(l) => (l as int) < c.ll.len(),
        PreflateToken::Reference(r) => (if r.irregular258 { 284 } else { 257 + len_code(ref_len(r)) }) < c.ll.len()
            && dist_code(r.dist as u32) < c.dl.len(),
    }
}
pub open spec fn tokens_bits_c(c: Codes, ts: Seq<PreflateToken>) -> Seq<bool>
    decreases ts.len()
{
    if ts.len() == 0 { Seq::<bool>::empty() } else { tokens_bits_c(c, ts.drop_last()) + token_bits_c(c, ts.last()) }
}

// ---- LZ77 expansion (RFC 1951 3.2.3): the plaintext a token sequence denotes ----
pub open spec fn lz_copy(text: Seq<u8>, dist: int, n: nat) -> Seq<u8>
    decreases n
{
    if n == 0 { text } else { let t = lz_copy(text, dist, (n - 1) as nat); t.push(t[t.len() - dist]) }
}
pub open spec fn apply_token(text: Seq<u8>, t: PreflateToken) -> Seq<u8> {
    match t {
        PreflateToken::Literal(l) => text.push(l),
        PreflateToken::Reference(r) => lz_copy(text, r.dist as int, ref_len(r) as nat),
    }
}
/// the token can be applied: a reference does not reach before the start of the text
pub open spec fn token_fits(text: Seq<u8>, t: PreflateToken) -> bool {
    match t { PreflateToken::Literal(l) => true, PreflateToken::Reference(r) => 1 <= r.dist <= text.len() && r.dist <= 32768 }
}
pub open spec fn apply_tokens(text: Seq<u8>, ts: Seq<PreflateToken>) -> Seq<u8>
    decreases ts.len()
{
    if ts.len() == 0 { text } else { apply_token(apply_tokens(text, ts.drop_last()), ts.last()) }
}
pub open spec fn tokens_fit(text: Seq<u8>, ts: Seq<PreflateToken>) -> bool
    decreases ts.len()
{
    if ts.len() == 0 { true } else { tokens_fit(text, ts.drop_last()) && token_fits(apply_tokens(text, ts.drop_last()), ts.last()) }
}
pub proof fn lemma_lz_copy_len(text: Seq<u8>, dist: int, n: nat)
    requires 1 <= dist <= text.len(),
    ensures lz_copy(text, dist, n).len() == text.len() + n,
        forall|i: int| 0 <= i < text.len() ==> lz_copy(text, dist, n)[i] == text[i],
    decreases n
{
    if n > 0 { lemma_lz_copy_len(text, dist, (n - 1) as nat); }
}
