#!/usr/bin/env python3
"""Maintenance only: record the golden corpus (correction data / containers) from the REFERENCE tree (/repo as checked
out now). Never run by a check."""
import os, sys, subprocess
sys.path.insert(0, os.path.dirname(os.path.abspath(__file__)))
import search
r = search.run_search("C04", extra_env={"VERIF_GOLDEN": "record"}, want_output=True)
lines = [l[l.index("GOLDEN-"):] for l in r["output"].split("\n") if "GOLDEN-" in l and "println!" not in l]
head = subprocess.check_output(["git", "-C", search.REPO, "rev-parse", "--short", "HEAD"], text=True).strip()
dirty = subprocess.check_output(["git", "-C", search.REPO, "status", "--short", "--", "src"], text=True).strip()
if dirty:
    sys.exit("refusing to record from a modified tree")
out = os.path.join(search.VERIF, "golden", "golden.txt")
open(out, "w").write("\n".join(l for l in lines if not l.startswith("GOLDEN-SKIP")) + "\n")
open(os.path.join(search.VERIF, "golden", "REFERENCE"), "w").write("recorded from /repo %s\n%s\n" % (head, "\n".join(l for l in lines if l.startswith("GOLDEN-SKIP"))))
print("recorded %d items from %s" % (len([l for l in lines if not l.startswith("GOLDEN-SKIP")]), head))
