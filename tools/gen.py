#!/usr/bin/env python3
"""Contract generator: transplants the ghost text of a contract file (.vc) onto the CURRENT
source of the functions in /repo and emits one single-file Verus crate per unit.

Contract file grammar (line oriented; a line starting with '@' is a directive, everything else is
payload of the preceding directive):

  @unit <id> <title>
  @prelude <name> ...            include contracts/prelude/<name>.rs (trusted, shared)
  @raw                           payload emitted verbatim (spec fns, lemmas, shims)
  @item <file> <kind> <name> [noattr] [derive=<A,B>] [external_body] [pubfields]
                                 extract a struct/enum/const/static/type verbatim
  @impl <file> "<header substring>" [header="<replacement header>"]
  @trait <file> <Name>
  @inject                        (inside @impl/@trait) payload emitted verbatim inside the block
  @endblock
  @fn <file> <name>              (inside @impl/@trait: a method of that block)
    @ret <ident>                 R0: name the result `-> (ident: T)`
    @attr <text>                 attribute line put above the fn (e.g. #[verifier::external_body])
    @sig                         payload inserted between signature and body
    @loop <k>                    payload inserted between the k-th loop header and its body
    @before "<anchor>" [#n]      payload inserted before the (n-th, default unique) anchor occurrence
    @after  "<anchor>" [#n]      payload inserted after it
    @replace "<anchor>" [#n] why="<reason>"   declared rewrite: anchor tokens replaced by payload
    @sub /regex/repl/ why="<reason>"          declared regex rewrite on the function text
    @bodyless                    keep only the signature (used with external_body: body replaced by
                                 `{ unimplemented!() }`)
  @endfn

Every inserted ghost region is wrapped in /*+g*/ ... /*-g*/ so that the erasure self-check can strip
it again and compare the remaining token stream with the (rewritten) current source.
"""
import sys, os, re, json, hashlib
sys.path.insert(0, os.path.dirname(os.path.abspath(__file__)))
import rustlex
from rustlex import lex, match_close, norm_ws

VERIF = os.path.dirname(os.path.dirname(os.path.abspath(__file__)))
REPO = os.environ.get("VERIF_REPO", "/repo")

G_OPEN, G_CLOSE = "/*+g*/", "/*-g*/"

class LostAnchor(Exception):
    pass

class ContractSyntax(Exception):
    pass

# ---------------------------------------------------------------------------------------------
# global, declared dialect rewrites (DESIGN 3.2). Each is (id, regex, replacement, why)
GLOBAL_REWRITES = [
    ("R1", re.compile(r"\.context\(\)"), "", "error decoration only"),
    ("R4", re.compile(r"\bdebug_assert(_eq|_ne)?!\s*\((?:[^()]|\((?:[^()]|\([^()]*\))*\))*\)\s*;"), "",
     "release-profile semantics: debug assertions absent"),
]


def parse_quoted(s):
    m = re.match(r'\s*"((?:[^"\\]|\\.)*)"(.*)$', s, re.S)
    if not m:
        raise ContractSyntax("expected quoted string in %r" % s)
    return m.group(1).replace('\\"', '"').replace("\\\\", "\\"), m.group(2)


def parse_opts(rest):
    opts = {}
    rest = rest.strip()
    while rest:
        m = re.match(r'#(\d+)\s*(.*)$', rest, re.S)
        if m:
            opts["nth"] = int(m.group(1)); rest = m.group(2); continue
        m = re.match(r'(\w+)="((?:[^"\\]|\\.)*)"\s*(.*)$', rest, re.S)
        if m:
            opts[m.group(1)] = m.group(2); rest = m.group(3); continue
        m = re.match(r'(\w+)=(\S+)\s*(.*)$', rest, re.S)
        if m:
            opts[m.group(1)] = m.group(2); rest = m.group(3); continue
        m = re.match(r'(\w+)\s*(.*)$', rest, re.S)
        if m:
            opts[m.group(1)] = True; rest = m.group(2); continue
        raise ContractSyntax("cannot parse options %r" % rest)
    return opts


class Directive:
    def __init__(self, name, arg, lineno):
        self.name, self.arg, self.lineno = name, arg, lineno
        self.payload = []
    def text(self):
        # strip trailing blank lines
        p = list(self.payload)
        while p and not p[-1].strip():
            p.pop()
        return "\n".join(p)


def parse_vc(path):
    ds = []
    cur = None
    for ln, line in enumerate(open(path).read().split("\n"), 1):
        if line.startswith("@") and not line.startswith("@@"):
            m = re.match(r"@(\w+)\s*(.*)$", line)
            cur = Directive(m.group(1), m.group(2), ln)
            ds.append(cur)
        elif line.startswith("#!"):
            continue  # contract-file comment
        else:
            if cur is None:
                if line.strip():
                    raise ContractSyntax("%s:%d payload before directive" % (path, ln))
                continue
            cur.payload.append(line[1:] if line.startswith("@@") else line)
    return ds


# ---------------------------------------------------------------------------------------------
class Out:
    """Accumulates output text with a per-line provenance map."""
    def __init__(self):
        self.parts = []  # (text, tag) where tag is dict describing provenance
    def add(self, text, **tag):
        self.parts.append((text, tag))
    def ghost(self, text, **tag):
        tag = dict(tag); tag["ghost"] = True
        self.parts.append((G_OPEN + text + G_CLOSE, tag))
    def render(self):
        lines_map = []
        buf = []
        line = 1
        for text, tag in self.parts:
            n = text.count("\n")
            # provenance applies to every line the part touches
            for k in range(n + 1):
                lines_map.append((line + k, tag))
            line += n
            buf.append(text)
        return "".join(buf), lines_map


def clause_index(payload, keywords=("requires", "ensures", "invariant", "invariant_except_break",
                                     "decreases", "recommends", "returns", "no_unwind", "opens_invariants")):
    """Map payload line offsets -> clause id like 'ensures[2]'. A clause ends at a line whose
    stripped text ends with ','; the keyword lines switch the current kind."""
    ids = []
    kind, n = "text", 0
    for line in payload.split("\n"):
        s = line.strip()
        w = s.split(None, 1)[0] if s else ""
        w0 = w.rstrip(",")
        if w0 in keywords:
            kind, n = w0, 0
            rest = s[len(w0):].strip()
            if not rest:
                ids.append(None)
                continue
        if not s or s.startswith("//"):
            ids.append(None)
            continue
        ids.append("%s[%d]" % (kind, n))
        if s.endswith(","):
            n += 1
    return ids


class FnSpec:
    def __init__(self, file, name, lineno):
        self.file, self.name, self.lineno = file, name, lineno
        self.ret = None
        self.attrs = []
        self.sig = None
        self.loops = {}
        self.anchors = []   # (mode, anchor, opts, payload)
        self.subs = []      # (regex, repl, why)
        self.bodyless = False


def find_token_seq(toks, lo, hi, anchor_texts):
    hits = []
    n = len(anchor_texts)
    for i in range(lo, hi - n + 1):
        if toks[i].text == anchor_texts[0]:
            ok = True
            for k in range(1, n):
                if toks[i + k].text != anchor_texts[k]:
                    ok = False; break
            if ok:
                hits.append(i)
    return hits


def loop_headers(toks, lo, hi):
    """indices (kw_idx, body_open_idx) for every loop/while/for in toks[lo:hi] in source order"""
    res = []
    i = lo
    while i < hi:
        t = toks[i]
        if t.kind == "id" and t.text in ("loop", "while", "for"):
            # `for` in `impl X for Y` / `for<'a>` cannot occur inside a fn body except HRTB; ignore `for <`
            if t.text == "for" and toks[i + 1].text == "<":
                i += 1; continue
            j = i + 1
            while j < hi:
                tt = toks[j]
                if tt.kind == "punct" and tt.text in ("(", "["):
                    j = match_close(toks, j) + 1; continue
                if tt.kind == "punct" and tt.text == "{":
                    break
                j += 1
            res.append((i, j))
        i += 1
    return res


def apply_fn(fs, item_text, unit_id, rewrites_log, out, where, canary=False, lenient=None):
    """item_text: current source text of the function item (attributes included).
    Emits annotated text to `out`. Returns list of obligation ids."""
    text = item_text
    # drop outer attributes that Verus does not need (#[inline], #[allow], #[cold], #[track_caller], docs are comments)
    text2 = re.sub(r"^\s*#\[(inline[^\]]*|allow[^\]]*|cold|track_caller|must_use|no_mangle)\]\s*", "", text)
    while text2 != text:
        rewrites_log.append({"id": "ATTR", "fn": fs.name, "why": "attribute irrelevant to verification dropped"})
        text = text2
        text2 = re.sub(r"^\s*#\[(inline[^\]]*|allow[^\]]*|cold|track_caller|must_use|no_mangle)\]\s*", "", text)
    for rid, rx, repl, why in GLOBAL_REWRITES:
        text, k = rx.subn(repl, text)
        for _ in range(k):
            rewrites_log.append({"id": rid, "fn": fs.name, "why": why})
    # R1b: `.with_context(|| <closure building a message>)` only decorates the error: dropped (balanced parentheses)
    while True:
        m1 = re.search(r"\s*\.with_context\(", text)
        if not m1:
            break
        depth, j, in_str = 1, m1.end(), False
        while j < len(text) and depth > 0:
            ch = text[j]
            if in_str:
                if ch == "\\": j += 1
                elif ch == '"': in_str = False
            else:
                if ch == '"': in_str = True
                elif ch == "(": depth += 1
                elif ch == ")": depth -= 1
            j += 1
        text = text[:m1.start()] + text[j:]
        rewrites_log.append({"id": "R1b", "fn": fs.name, "why": "error decoration only (.with_context closure dropped)"})
    for rx, repl, why in fs.subs:
        text, k = re.subn(rx, repl, text, flags=re.S)
        if k == 0:
            if lenient is not None:
                lenient.append("%s: @sub /%s/ matched nothing in %s" % (unit_id, rx, fs.name))
                continue
            raise LostAnchor("%s: @sub /%s/ matched nothing in %s" % (unit_id, rx, fs.name))
        for _ in range(k):
            rewrites_log.append({"id": "SUB", "fn": fs.name, "why": why, "regex": rx})
    rewritten = text
    toks = lex(text)
    # locate fn keyword, signature end
    fi = None
    for i, t in enumerate(toks):
        if t.kind == "id" and t.text == "fn" and toks[i + 1].text == fs.name:
            fi = i; break
    if fi is None:
        raise LostAnchor("%s: fn %s not found in its own item" % (unit_id, fs.name))
    # params: first '(' after name (skip generics)
    j = fi + 2
    if toks[j].text == "<":
        depth = 0
        while True:
            if toks[j].text == "<": depth += 1
            elif toks[j].text == ">": depth -= 1
            elif toks[j].text == ">>": depth -= 2
            j += 1
            if depth == 0: break
    if toks[j].text != "(":
        raise LostAnchor("%s: cannot parse signature of %s" % (unit_id, fs.name))
    pclose = match_close(toks, j)
    # body open or ';'
    k = pclose + 1
    body_open = None
    semi = None
    where_idx = None
    while k < len(toks):
        tt = toks[k]
        if tt.kind == "punct" and tt.text in ("(", "["):
            k = match_close(toks, k) + 1; continue
        if tt.kind == "id" and tt.text == "where" and where_idx is None:
            where_idx = k
        if tt.kind == "punct" and tt.text == "{":
            body_open = k; break
        if tt.kind == "punct" and tt.text == ";":
            semi = k; break
        k += 1
    sig_end_idx = body_open if body_open is not None else semi
    # insertion list: (char_pos, order, text, tag, replace_until)
    ins = []
    obligations = []
    def add_ins(pos, payload, section, order=0, until=None):
        ids = clause_index(payload)
        ins.append((pos, order, payload, section, ids, until))
        if section.startswith("at") and re.search(r"\bassert\b|\blemma_|proof\s*\{", payload):
            obligations.append("%s.%s.%s.proof" % (unit_id, fs.name, section))
        for cid in ids:
            if cid and not cid.startswith("text") and not cid.startswith("requires") and not cid.startswith("recommends"):
                obligations.append("%s.%s.%s.%s" % (unit_id, fs.name, section, cid))
    # R0 return naming
    if fs.ret:
        if toks[pclose + 1].text == "->":
            r_start = toks[pclose + 2].start
            endtok = where_idx if where_idx is not None else sig_end_idx
            r_end = toks[endtok - 1].end
            ins.append((r_start, 0, "(%s: " % fs.ret, "ret", [None], None))
            ins.append((r_end, -1, ")", "ret", [None], None))
            rewrites_log.append({"id": "R0", "fn": fs.name, "why": "Verus names results"})
        else:
            raise LostAnchor("%s: %s has no return type to name" % (unit_id, fs.name))
    if fs.sig is not None:
        add_ins(toks[sig_end_idx].start, "\n" + fs.sig + "\n", "sig")
    if body_open is not None:
        bclose = match_close(toks, body_open)
        lh = loop_headers(toks, body_open + 1, bclose)
        loops_ok = True
        if len(lh) != fs.nloops_expected and fs.nloops_expected is not None:
            if lenient is None:
                raise LostAnchor("%s: %s has %d loops, contract was written for %d" % (unit_id, fs.name, len(lh), fs.nloops_expected))
            lenient.append("%s: %s has %d loops, contract was written for %d (loop contracts dropped)" % (unit_id, fs.name, len(lh), fs.nloops_expected))
            loops_ok = False
        for kk, payload in (fs.loops.items() if loops_ok else []):
            if kk >= len(lh):
                if lenient is None:
                    raise LostAnchor("%s: %s has %d loops, contract refers to loop %d" % (unit_id, fs.name, len(lh), kk))
                lenient.append("%s: %s loop %d missing" % (unit_id, fs.name, kk)); continue
            add_ins(toks[lh[kk][1]].start, "\n" + payload + "\n", "loop%d" % kk)
        for ai, (mode, anchor, opts, payload) in enumerate(fs.anchors):
            at = [t.text for t in lex(anchor)]
            hits = find_token_seq(toks, body_open, bclose + 1, at)
            nth = opts.get("nth")
            lost_msg = None
            if nth is None:
                if len(hits) != 1:
                    lost_msg = "%s: %s anchor %r occurs %d times (expected exactly 1)" % (unit_id, fs.name, anchor, len(hits))
                else:
                    h = hits[0]
            else:
                if nth >= len(hits):
                    lost_msg = "%s: %s anchor %r #%d not found (%d hits)" % (unit_id, fs.name, anchor, nth, len(hits))
                elif "of" in opts and int(opts["of"]) != len(hits):
                    lost_msg = "%s: %s anchor %r occurs %d times (expected %s)" % (unit_id, fs.name, anchor, len(hits), opts["of"])
                else:
                    h = hits[nth]
            if lost_msg is not None:
                if lenient is None:
                    raise LostAnchor(lost_msg)
                lenient.append(lost_msg)
                continue
            sec = "at%d" % ai
            if mode == "before":
                add_ins(toks[h].start, payload + "\n", sec)
            elif mode == "after":
                add_ins(toks[h + len(at) - 1].end, "\n" + payload + "\n", sec, order=1)
            elif mode == "replace":
                add_ins(toks[h].start, payload, sec, until=toks[h + len(at) - 1].end)
                rewrites_log.append({"id": "REPLACE", "fn": fs.name, "anchor": anchor, "why": opts.get("why", "")})
    else:
        if fs.loops or fs.anchors:
            raise LostAnchor("%s: %s has no body but contract has loop/anchor sections" % (unit_id, fs.name))
    if getattr(fs, "hides", None) and body_open is not None and not fs.bodyless:
        ins.append((toks[body_open].end, 1, "\n " + " ".join("hide(%s);" % h for h in fs.hides) + "\n", "hide", [], None))
    if canary and body_open is not None and not fs.bodyless:
        ins.append((toks[body_open].end, 5, "\n proof { assert(false); } \n", "canary.body", ["canary"], None))
        isolated = not any("loop_isolation(false)" in a for a in fs.attrs)
        for kk, (kwi, boi) in enumerate(loop_headers(toks, body_open + 1, match_close(toks, body_open)) if isolated else []):
            ins.append((toks[boi].end, 5, "\n proof { assert(false); } \n", "canary.loop%d" % kk, ["canary"], None))
    # emit
    ins.sort(key=lambda x: (x[0], x[1]))
    erased_parts = []
    epos = 0
    for (p, order, payload, section, ids, until) in ins:
        if until is not None:
            erased_parts.append(text[epos:p]); epos = until
    erased_parts.append(text[epos:])
    erased = "".join(erased_parts)
    pos = 0
    for a in fs.attrs:
        out.ghost(a + "\n", fn=fs.name, section="attr")
    end_limit = len(text)
    if fs.bodyless and body_open is not None:
        end_limit = toks[body_open].start
    for (p, order, payload, section, ids, until) in ins:
        if p > end_limit:
            continue
        out.add(text[pos:p], fn=fs.name, section="src", src=where)
        # emit ghost payload line by line so that each line carries its clause id
        plines = payload.split("\n")
        out.add(G_OPEN)
        for li, pl in enumerate(plines):
            cid = ids[li] if li < len(ids) else None
            nl = "\n" if li < len(plines) - 1 else ""
            out.add(pl + nl, fn=fs.name, section=section, clause=cid, ghost=True)
        out.add(G_CLOSE)
        pos = p
        if until is not None:
            # replaced source tokens are kept in a comment-free marker for the erasure check
            pos = until
    out.add(text[pos:end_limit], fn=fs.name, section="src", src=where)
    if fs.bodyless and body_open is not None:
        out.ghost("{ unimplemented!() }", fn=fs.name, section="bodyless")
    out.add("\n\n")
    obligations.append("%s.%s.safety" % (unit_id, fs.name))
    return obligations, erased


def generate(vc_path, out_dir, canary=False, lenient=False):
    ds = parse_vc(vc_path)
    unit_id = None
    out = Out()
    files = {}
    def sf(rel):
        if rel not in files:
            p = os.path.join(REPO, rel)
            if rel.startswith("dep:"):
                # dep:<crate>-<ver>/<path> resolved in the cargo registry
                import glob
                g = glob.glob(os.path.expanduser("~/.cargo/registry/src/*/" + rel[4:]))
                if not g:
                    raise LostAnchor("dependency source %s not found" % rel)
                # the dependency version must be the one pinned in /repo/Cargo.lock
                m = re.match(r"dep:([A-Za-z0-9_-]+?)-(\d[^/]*)/", rel)
                lock = open(os.path.join(REPO, "Cargo.lock")).read() if os.path.exists(os.path.join(REPO, "Cargo.lock")) else ""
                if m and not re.search(r'name = "%s"\nversion = "%s"' % (re.escape(m.group(1)), re.escape(m.group(2))), lock):
                    raise LostAnchor("Cargo.lock does not pin %s %s" % (m.group(1), m.group(2)))
                p = g[0]
            if not os.path.exists(p):
                raise LostAnchor("source file %s not found" % rel)
            files[rel] = rustlex.SourceFile(p)
        return files[rel]
    rewrites_log = []
    lost_hints = [] if lenient else None
    trait_sig_obl = {}
    obligations = []
    functions = []
    dropped = []
    block = None       # current impl/trait Item
    block_file = None
    erasure = []       # (fn name, rewritten source text)
    item_subs = {}
    unclaimed = []
    i = 0
    out.add("// GENERATED by verif/tools/gen.py from %s and the current /repo sources. Do not edit.\n" % os.path.basename(vc_path))
    out.add("#![allow(unused_imports, unused_variables, unused_mut, dead_code, non_snake_case, unused_assignments, unused_parens, non_camel_case_types, unreachable_code, unused_braces)]\n")
    out.add("use vstd::prelude::*;\n")
    opened = False
    def open_verus():
        nonlocal opened
        if not opened:
            out.add("verus! {\n\n")
            opened = True
    n = len(ds)
    while i < n:
        d = ds[i]
        if d.name == "unit":
            unit_id = d.arg.split()[0]
        elif d.name == "use":
            out.add("use %s;\n" % d.arg.strip().rstrip(";"))
        elif d.name == "prelude":
            open_verus()
            for name in d.arg.split():
                p = os.path.join(VERIF, "contracts", "prelude", name + ".rs")
                out.add("// ---- trusted prelude: %s ----\n" % name, section="prelude")
                out.add(open(p).read() + "\n", section="prelude", prelude=name)
        elif d.name in ("raw", "include"):
            open_verus()
            if d.name == "include":
                txt = ""
                for nm in d.arg.split():
                    txt += "// ---- shared specification: %s ----\n" % nm + open(os.path.join(VERIF, "contracts", "spec", nm + ".rs")).read() + "\n"
                d = Directive("raw", "include_" + "_".join(d.arg.split()), d.lineno)
            else:
                txt = d.text()
            ids = clause_index(txt)
            rawname = d.arg.strip() or "raw%d" % d.lineno
            # obligations inside raw text: every proof fn / exec fn declared there counts as one
            for m in re.finditer(r"\b(proof\s+fn|fn)\s+(\w+)", txt):
                if "spec fn" in txt[max(0, m.start() - 12):m.end()]:
                    continue
                obligations.append("%s.raw.%s" % (unit_id, m.group(2)))
            out.add(txt + "\n\n", section="raw", raw=rawname)
        elif d.name == "itemsub":
            m3 = re.match(r"(\w+)\s+(\w+)\s+/((?:[^/\\]|\\.)*)/((?:[^/\\]|\\.)*)/\s*(.*)$", d.arg)
            if not m3:
                raise ContractSyntax("bad @itemsub at line %d" % d.lineno)
            item_subs.setdefault((m3.group(1), m3.group(2)), []).append((m3.group(3), m3.group(4), parse_opts(m3.group(5)).get("why", "")))
        elif d.name == "item":
            open_verus()
            parts = d.arg.split()
            rel, kind, name = parts[0], parts[1], parts[2]
            opts = parse_opts(" ".join(parts[3:]))
            f = sf(rel)
            hits = f.find(kind, name)
            if len(hits) != 1:
                raise LostAnchor("%s: item %s %s in %s: %d matches" % (unit_id, kind, name, rel, len(hits)))
            it = hits[0]
            attrs = it.attrs()
            body = f.src[f.toks[it.kw_idx if not _has_vis(f, it) else _vis_idx(f, it)].start:it.end]
            keep = []
            for a in attrs:
                an = re.sub(r"\s", "", a)
                if an.startswith("#[derive("):
                    want = opts.get("derive")
                    if want:
                        keep.append("#[derive(%s)]" % want)
                    dropped.append("%s %s: %s" % (kind, name, a if not want else a + " -> derive(" + want + ")"))
                elif an.startswith("#[allow(") or an.startswith("#[doc"):
                    dropped.append("%s %s: %s" % (kind, name, a))
                elif an.startswith("#[repr("):
                    keep.append(a)
                else:
                    dropped.append("%s %s: %s" % (kind, name, a))
            if opts.get("pubfields") and kind == "struct":
                # visibility only: private fields become pub so that contracts of pub functions may mention them
                body, k4 = re.subn(r"(?m)^(\s+)([a-z_][A-Za-z0-9_]*\s*:)", r"\1pub \2", body)
                if k4:
                    rewrites_log.append({"id": "ITEMVIS", "fn": "%s %s" % (kind, name), "why": "visibility only: %d private fields made pub (contracts of pub functions mention them)" % k4})
            for (rx, repl, why) in item_subs.get((kind, name), []):
                body, k3 = re.subn(rx, repl, body, flags=re.S)
                if k3 == 0:
                    raise LostAnchor("%s: @itemsub /%s/ matched nothing in %s %s" % (unit_id, rx, kind, name))
                rewrites_log.append({"id": "ITEMSUB", "fn": "%s %s" % (kind, name), "why": why, "regex": rx})
            if "#[default]" in body:
                body = body.replace("#[default]", "")
                dropped.append("%s %s: #[default] variant markers (derive(Default) dropped)" % (kind, name))
            if "#[non_exhaustive]" in body:
                body = body.replace("#[non_exhaustive]", "")
            for a in keep:
                out.add(a + "\n", section="item")
            if opts.get("external_body"):
                out.ghost("#[verifier::external_body]\n")
            if d.text().strip():
                out.ghost(d.text() + "\n")
            out.add(body + "\n\n", section="item", item=name, src="%s:%d" % (rel, f.src.count("\n", 0, it.start) + 1))
            erasure.append(("item " + name, body))
        elif d.name in ("impl", "trait"):
            open_verus()
            if d.name == "impl":
                rel, rest = d.arg.split(None, 1)
                hdr, rest = parse_quoted(rest)
                opts = parse_opts(rest)
                f = sf(rel)
                hits = f.impls(hdr)
                nth = int(opts.get("nth", 0))
                if len(hits) == 0 or nth >= len(hits) or (len(hits) > 1 and "nth" not in opts):
                    raise LostAnchor("%s: impl %r in %s: %d matches" % (unit_id, hdr, rel, len(hits)))
                block = hits[nth]
                header = opts.get("header") or block.header_text().strip()
                if opts.get("header"):
                    rewrites_log.append({"id": "IMPLHDR", "fn": hdr, "why": opts.get("why", "impl header adapted"),
                                         "from": norm_ws(block.header_text()), "to": header})
            else:
                rel, name = d.arg.split()[:2]
                f = sf(rel)
                hits = f.find("trait", name)
                if len(hits) != 1:
                    raise LostAnchor("%s: trait %s in %s: %d matches" % (unit_id, name, rel, len(hits)))
                block = hits[0]
                vis = "pub " if _has_vis(f, block) else ""
                header = vis + block.header_text().strip()
            block_file = rel
            block_directive = d
            if d.text().strip():
                out.ghost(d.text() + "\n")
            out.add(header + " {\n", section="block", src=rel)
        elif d.name == "inject":
            out.ghost(d.text() + "\n", section="inject")
            txt = d.text()
            for m in re.finditer(r"\b(proof\s+fn)\s+(\w+)", txt):
                obligations.append("%s.inject.%s" % (unit_id, m.group(2)))
        elif d.name == "endblock":
            out.add("}\n\n", section="block")
            block = None
        elif d.name == "assume_fn":
            # @assume_fn <unit> <fn> : signature from the current source, contract text from <unit>.vc,
            # body dropped (external_body). The obligation is discharged in <unit>, assumed here.
            open_verus()
            ou, oname = d.arg.split()[:2]
            ods = parse_vc(os.path.join(VERIF, "contracts", ou + ".vc"))
            oblock = None
            found = None
            k2 = 0
            while k2 < len(ods):
                od = ods[k2]
                if od.name in ("impl", "trait"):
                    oblock = od
                elif od.name == "endblock":
                    oblock = None
                elif od.name == "fn" and od.arg.split()[-1] == oname:
                    # prefer the function of the block with the same header as the current one
                    same = (oblock is not None and block is not None and norm_ws(oblock.arg) == norm_ws(block_directive.arg))
                    if found is None or same:
                        found = (k2, oblock)
                    if same or block is None:
                        break
                k2 += 1
            if found is None:
                raise ContractSyntax("@assume_fn: %s not found in %s.vc" % (oname, ou))
            k2, oblock = found
            if (oblock is None) != (block is None):
                raise ContractSyntax("@assume_fn %s: must be used inside the same kind of block as in %s.vc" % (oname, ou))
            parts = ods[k2].arg.split()
            rel = parts[0] if len(parts) == 2 else block_file
            fs = FnSpec(rel, oname, d.lineno)
            fs.nloops_expected = None
            fs.bodyless = True
            fs.attrs.append("#[verifier::external_body]")
            assumed_subs = []
            k2 += 1
            while ods[k2].name != "endfn":
                if ods[k2].name == "ret": fs.ret = ods[k2].arg.strip()
                elif ods[k2].name == "sig": fs.sig = ods[k2].text()
                elif ods[k2].name == "private":
                    fs.subs.append((r"^(\s*)pub(\([a-z]+\))?\s+fn\b", r"\1fn", "visibility only: contracts of this function mention private fields/spec functions"))
                elif ods[k2].name == "sub":
                    m2 = re.match(r"/((?:[^/\\]|\\.)*)/((?:[^/\\]|\\.)*)/\s*(.*)$", ods[k2].arg)
                    if m2 and (m2.group(1).startswith("pub fn ") or "ghost parameter" in parse_opts(m2.group(3)).get("why", "")):
                        # signature-affecting rewrites travel with the contract
                        fs.subs.append((m2.group(1), m2.group(2).replace("\\/", "/"), parse_opts(m2.group(3)).get("why", "")))
                k2 += 1
            m5 = re.search(r"\bsub=/((?:[^/\\]|\\.)*)/((?:[^/\\]|\\.)*)/", d.arg)
            if m5:
                # e.g. the `Result` alias of the defining file differs from the one of this unit
                fs.subs.append((m5.group(1), m5.group(2), "type alias of the defining file spelled out (this unit uses another `Result` alias)"))
            if d.text().strip():
                # extra ASSUMED clauses added on top of the imported (proved) contract
                fs.sig = (fs.sig or "") + "\n" + d.text()
            f = sf(rel)
            if block is not None:
                cands = [it for it in f.sub_items(block) if it.kind == "fn" and it.name == oname]
            else:
                cands = [it for it in f.items if it.kind == "fn" and it.name == oname and not it.is_test()]
            if len(cands) != 1:
                raise LostAnchor("%s: assumed fn %s in %s: %d matches" % (unit_id, oname, rel, len(cands)))
            it = cands[0]
            where = "%s:%d" % (rel, f.src.count("\n", 0, it.start) + 1)
            if it.body_open is None:
                # a trait method declaration: nothing to drop, the contract is simply declared
                fs.attrs = []
                fs.bodyless = False
            aobl, _ = apply_fn(fs, it.text, unit_id, rewrites_log, out, where, lenient=lost_hints)
            if it.body_open is None and block_directive is not None and block_directive.name == "trait":
                # contract of a trait method: an impl of the trait in this unit inherits it and has to discharge it
                trait_sig_obl[oname] = [o for o in aobl if ".sig." in o]
            functions.append({"fn": oname, "path": where, "sha256": hashlib.sha256(it.text.encode()).hexdigest()[:16],
                              "assumed": True, "proved_in": ou})
        elif d.name == "fn":
            open_verus()
            parts = d.arg.split()
            if block is not None and len(parts) == 1:
                rel, name = block_file, parts[0]
            else:
                rel, name = parts[0], parts[1]
            fs = FnSpec(rel, name, d.lineno)
            fs.nloops_expected = None
            i += 1
            while i < n and ds[i].name != "endfn":
                s = ds[i]
                if s.name == "ret":
                    fs.ret = s.arg.strip()
                elif s.name == "attr":
                    fs.attrs.append(s.arg.strip())
                elif s.name == "sig":
                    fs.sig = s.text()
                elif s.name == "loops":
                    fs.nloops_expected = int(s.arg.strip())
                elif s.name == "loop":
                    fs.loops[int(s.arg.strip())] = s.text()
                elif s.name in ("before", "after", "replace"):
                    anchor, rest = parse_quoted(s.arg)
                    fs.anchors.append((s.name, anchor, parse_opts(rest), s.text()))
                elif s.name == "sub":
                    m = re.match(r"/((?:[^/\\]|\\.)*)/((?:[^/\\]|\\.)*)/\s*(.*)$", s.arg)
                    if not m:
                        raise ContractSyntax("bad @sub at line %d" % s.lineno)
                    o = parse_opts(m.group(3))
                    fs.subs.append((m.group(1), m.group(2).replace("\\/", "/"), o.get("why", "")))
                elif s.name == "private":
                    fs.subs.append((r"^(\s*)pub(\([a-z]+\))?\s+fn\b", r"\1fn", "visibility only: contracts of this function mention private fields/spec functions"))
                elif s.name == "hide":
                    # spec functions whose bodies are hidden inside this function (Verus wants `hide` first in the body)
                    fs.hides = getattr(fs, "hides", []) + s.arg.split()
                elif s.name == "bodyless":
                    fs.bodyless = True
                elif s.name == "rename":
                    # the function is emitted under another name (specialised copies of one source function)
                    fs.emit_name = s.arg.strip()
                elif s.name == "unclaimed":
                    # obligations of this function that are NOT claimed (reported as unproved, never as violations)
                    for k4 in s.arg.split():
                        unclaimed.append("%s.%s.%s" % (unit_id, name, k4))
                else:
                    raise ContractSyntax("unexpected @%s inside @fn at line %d" % (s.name, s.lineno))
                i += 1
            f = sf(rel)
            if block is not None:
                cands = [it for it in f.sub_items(block) if it.kind == "fn" and it.name == name]
            else:
                cands = [it for it in f.items if it.kind == "fn" and it.name == name and not it.is_test()]
            if len(cands) != 1:
                raise LostAnchor("%s: fn %s in %s: %d matches" % (unit_id, name, rel, len(cands)))
            it = cands[0]
            line = f.src.count("\n", 0, it.start) + 1
            where = "%s:%d" % (rel, line)
            if getattr(fs, "emit_name", None):
                fs.subs.insert(0, (r"\bfn %s\b" % re.escape(name), "fn %s" % fs.emit_name, "emitted under the name %s (specialised copy of %s)" % (fs.emit_name, name)))
                fs.name = fs.emit_name
            obl, rewritten = apply_fn(fs, it.text, unit_id, rewrites_log, out, where, canary=canary, lenient=lost_hints)
            obligations += obl
            if block is not None and block_directive is not None and block_directive.name == "impl" and not fs.bodyless \
                    and name in trait_sig_obl and not any(".sig." in o for o in obl):
                # a verified trait-method implementation without a contract of its own: the inherited postconditions
                # are its obligations (the verifier reports them at the trait declaration)
                obligations += [o for o in trait_sig_obl[name] if o not in obligations]
            erasure.append(("fn " + fs.name, rewritten if not fs.bodyless else None))
            functions.append({"fn": fs.name, "path": where,
                              "sha256": hashlib.sha256(it.text.encode()).hexdigest()[:16],
                              "assumed": any("external_body" in a for a in fs.attrs)})
        else:
            raise ContractSyntax("unknown directive @%s at line %d" % (d.name, d.lineno))
        i += 1
    # AUTOCONST: a verified body that mentions a SCREAMING_CASE constant which the contract file does not list (a
    # constant introduced or renamed by a change to the source) gets that `const` item extracted from the source files
    # of the unit (or preflate_constants.rs), to a fixpoint. On a tree where every constant is listed this does nothing.
    if opened:
        try:
            for _round in range(4):
                cur, _lm = out.render()
                code = strip_ghost(cur)
                defined = set(re.findall(r"\b(?:const|static)\s+([A-Z][A-Z0-9_]*)\b", cur))
                wanted = set()
                for nm, src in erasure:
                    if src:
                        wanted |= set(re.findall(r"\b[A-Z][A-Z0-9_]{2,}\b", src))
                for nm in list(defined):
                    pass
                missing = [w for w in sorted(wanted) if w not in defined and not re.search(r"\b(?:struct|enum|type|trait)\s+%s\b" % w, cur)]
                added = 0
                for w in missing:
                    rels = [r for r in list(files.keys()) if not r.startswith("dep:")]
                    if "src/preflate_constants.rs" not in rels:
                        rels.append("src/preflate_constants.rs")
                    for r in rels:
                        try:
                            f2 = sf(r)
                        except Exception:
                            continue
                        cs = [it for it in f2.items if it.kind == "const" and it.name == w and not it.is_test()]
                        if len(cs) == 1:
                            body = cs[0].text
                            out.add("\n" + body + "\n", section="item", item=w, src="%s:%d" % (r, f2.src.count("\n", 0, cs[0].start) + 1))
                            erasure.append(("item " + w, body))
                            rewrites_log.append({"id": "AUTOCONST", "fn": "const " + w,
                                                 "why": "constant referenced by a verified body but not listed in the contract file: extracted from %s" % r})
                            added += 1
                            break
                if not added:
                    break
        except LostAnchor:
            pass
    if opened:
        out.add("\n} // verus!\n")
    out.add("fn main() {}\n")
    text, lines_map = out.render()
    return {"unit": unit_id, "text": text, "lines": lines_map, "obligations": obligations,
            "functions": functions, "rewrites": rewrites_log, "dropped": dropped, "erasure": erasure,
            "lost_hints": lost_hints or [], "unclaimed": unclaimed}


def _has_vis(f, it):
    for k in range(it.a_idx, it.kw_idx):
        if f.toks[k].text == "pub":
            return True
    return False

def _vis_idx(f, it):
    for k in range(it.a_idx, it.kw_idx):
        if f.toks[k].text == "pub":
            return k
    return it.kw_idx


def strip_ghost(text):
    """Remove ghost regions; used by the erasure self-check."""
    out = []
    i = 0
    while True:
        j = text.find(G_OPEN, i)
        if j < 0:
            out.append(text[i:]); break
        out.append(text[i:j])
        k = text.find(G_CLOSE, j)
        if k < 0:
            raise ValueError("unterminated ghost region")
        i = k + len(G_CLOSE)
    return "".join(out)


def erasure_check(gen):
    """Every extracted fn/item must occur, token for token, in the ghost-stripped output."""
    stripped = strip_ghost(gen["text"])
    has_replace = False
    st = [t.text for t in lex(stripped)]
    joined = "\x00".join(st)
    problems = []
    for name, src in gen["erasure"]:
        if src is None:
            continue
        tt = [t.text for t in lex(src)]
        # R0 and @replace change tokens: handled by checking sub-sequences between ghost insert points
        if "\x00".join(tt) not in joined:
            # tolerate functions with @replace regions: compare after removing replaced anchors is not possible
            # here, so such functions are reported (not failed) by the caller via rewrites.
            problems.append(name)
    return problems, has_replace


def canary_variant(gen_text):
    """insert `proof { assert(false); }`-style reachability canaries: done by the driver through @fn body
    starts. Implemented textually: after every '/*canary-body*/' marker."""
    return gen_text


if __name__ == "__main__":
    import argparse
    ap = argparse.ArgumentParser()
    ap.add_argument("vc")
    ap.add_argument("--out", default=os.path.join(VERIF, "build"))
    a = ap.parse_args()
    os.makedirs(a.out, exist_ok=True)
    try:
        g = generate(a.vc, a.out)
    except LostAnchor as e:
        print("UNDECIDED lost-anchor: %s" % e)
        sys.exit(2)
    p = os.path.join(a.out, g["unit"] + ".rs")
    open(p, "w").write(g["text"])
    probs, _ = erasure_check(g)
    print("wrote %s: %d obligations, %d functions, erasure problems: %s" % (p, len(g["obligations"]), len(g["functions"]), probs))
