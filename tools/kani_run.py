#!/usr/bin/env python3
"""Kani back end: injects harness modules from /verif/kani into a mktemp scratch copy of /repo's CURRENT working
tree (never into /repo), runs `cargo kani`, parses per-harness verdicts, deletes the scratch copy.

Harness spec (contracts/properties.json, "kani": [...]):
  name      id used in evidence
  file      kani/<file>.rs : text appended (inside `#[cfg(kani)] mod <mod> { use super::*; ... }`) ...
  inject    ... to this source file of the scratch copy (so private items are reachable)
  mod       module name
  harness   harness function name(s) (list) inside that module
  kind      complete | contract | bounded   (bounded is never counted as proved)
  bound     human-readable statement of the bound / domain
  tier      quick | thorough
  timeout   seconds
"""
import os, sys, re, json, shutil, subprocess, tempfile, time

VERIF = os.path.dirname(os.path.dirname(os.path.abspath(__file__)))
REPO = os.environ.get("VERIF_REPO", "/repo")


def make_scratch(specs):
    d = tempfile.mkdtemp(prefix="verif_kani_")
    for item in ("src", "Cargo.toml", "Cargo.lock"):
        s = os.path.join(REPO, item)
        if os.path.isdir(s):
            shutil.copytree(s, os.path.join(d, item))
        elif os.path.exists(s):
            shutil.copy(s, os.path.join(d, item))
    os.makedirs(os.path.join(d, ".cargo"), exist_ok=True)
    open(os.path.join(d, ".cargo", "config.toml"), "w").write("[net]\noffline = true\n")
    by_file = {}
    for sp in specs:
        by_file.setdefault(sp["inject"], [])
        if sp["file"] not in [x["file"] for x in by_file[sp["inject"]]]:
            by_file[sp["inject"]].append(sp)
    for rel, sps in by_file.items():
        p = os.path.join(d, rel)
        if not os.path.exists(p):
            raise FileNotFoundError("inject target %s missing" % rel)
        with open(p, "a") as f:
            for sp in sps:
                body = open(os.path.join(VERIF, sp["file"])).read()
                f.write("\n\n#[cfg(kani)]\nmod %s {\n    #![allow(unused_imports, dead_code, unused_variables, unused_mut)]\n    use super::*;\n%s\n}\n" % (sp["mod"], body))
    # crate-level: nothing; function-contract attributes are written inline in harness files via stubs only
    return d


def parse_output(out, harness_names):
    """split cargo-kani output per harness"""
    res = {}
    # sections start with "Checking harness <path>..."
    parts = re.split(r"\nChecking harness ([^\n]+?)\.\.\.\n", "\n" + out)
    # parts: [pre, name1, body1, name2, body2...]
    for i in range(1, len(parts) - 1, 2):
        name = parts[i].strip()
        body = parts[i + 1]
        short = name.split("::")[-1]
        st = None
        if "CBMC failed" in body or "out of memory" in body or "CBMC timed out" in body:
            st = None       # tool limit: undecided, never a violation
        elif "VERIFICATION:- SUCCESSFUL" in body:
            st = "ok"
        elif "VERIFICATION:- FAILED" in body:
            st = "violated"
        failed = re.findall(r"Failed Checks: ([^\n]+)", body)
        m = re.search(r"\*\* (\d+) of (\d+) failed", body)
        nchecks = int(m.group(2)) if m else None
        nfail = int(m.group(1)) if m else None
        cover = re.findall(r"\*\* (\d+) of (\d+) cover properties satisfied", body)
        unwind_fail = any("unwinding assertion" in f for f in failed)
        res[short] = {"status": st, "failed_checks": failed, "checks": nchecks, "nfail": nfail,
                      "covers": cover[0] if cover else None, "unwind_failed": unwind_fail,
                      "tail": body[-3000:]}
    return res


def run_group(specs, tier, concrete_playback=False):
    """one scratch copy, one cargo-kani invocation for all harnesses of the group"""
    t0 = time.time()
    results = []
    try:
        d = make_scratch(specs)
    except Exception as e:
        return [dict(name=sp["name"], kind=sp["kind"], status="undecided", reason="scratch: %r" % e, bound=sp.get("bound")) for sp in specs]
    try:
        harnesses = []
        for sp in specs:
            for h in sp["harness"]:
                harnesses.append(h)
        cmd = ["cargo", "kani", "-Z", "function-contracts", "-Z", "stubbing", "--output-format", "terse"]
        for h in harnesses:
            cmd += ["--harness", h]
        if concrete_playback:
            cmd += ["-Z", "concrete-playback", "--concrete-playback=print"]
        timeout = max(sp.get("timeout", 900) for sp in specs)
        env = dict(os.environ, CARGO_NET_OFFLINE="true")
        try:
            p = subprocess.run(cmd, cwd=d, capture_output=True, text=True, timeout=timeout, env=env)
            out = p.stdout + "\n" + p.stderr
            rc = p.returncode
        except subprocess.TimeoutExpired as e:
            out = ((e.stdout or b"").decode(errors="replace") if isinstance(e.stdout, bytes) else (e.stdout or "")) + "\nTIMEOUT"
            rc = -9
        per = parse_output(out, harnesses)
        wall = time.time() - t0
        for sp in specs:
            st = "ok"
            failed, checks, tails = [], 0, []
            reason = None
            for h in sp["harness"]:
                r = per.get(h)
                if r is None or r["status"] is None:
                    st = "undecided"
                    reason = "no verdict for harness %s (rc=%s): %s" % (h, rc, out[-600:])
                    break
                checks += r["checks"] or 1
                if r["status"] == "violated":
                    if r["unwind_failed"] and all("unwinding" in f for f in r["failed_checks"]):
                        st = "undecided"; reason = "unwinding assertion failed for %s (bound too small)" % h
                        break
                    st = "violated"
                    failed += ["%s: %s" % (h, f) for f in r["failed_checks"]]
                    tails.append(r["tail"])
                elif sp.get("expect_cover") and r["covers"] and r["covers"][0] != r["covers"][1]:
                    st = "undecided"; reason = "cover property unsatisfied in %s (vacuous harness?)" % h
                    break
            results.append({"name": sp["name"], "kind": sp["kind"], "status": st, "reason": reason, "bound": sp.get("bound"),
                            "harnesses": sp["harness"], "checks": checks, "failed_checks": failed,
                            "output_tail": "\n".join(tails)[-4000:], "wall_s": round(wall, 1),
                            "cmd": " ".join(cmd), "assumptions": sp.get("assumptions", [])})
        return results
    finally:
        shutil.rmtree(d, ignore_errors=True)


def submit_all(ex, specs, tier):
    # all harnesses of a property share one scratch build
    return {"group": ex.submit(run_group, specs, tier)}


def collect(futs):
    out = []
    for k, f in futs.items():
        out += f.result()
    return out


def find_counterexample(spec):
    return None


def replay_counterexample(cx):
    print(json.dumps(cx, indent=1))
    return 1


if __name__ == "__main__":
    props = json.load(open(os.path.join(VERIF, "contracts", "properties.json")))
    prop = sys.argv[1]
    names = sys.argv[2:]
    specs = [h for h in props[prop].get("kani", []) if not names or h["name"] in names]
    for r in run_group(specs, "thorough"):
        r2 = dict(r); tail = r2.pop("output_tail", "")
        print(json.dumps(r2, indent=1))
        if r["status"] != "ok":
            print(tail[-2500:])
