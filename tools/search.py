#!/usr/bin/env python3
"""Replay searcher: after a contract obligation failed (or an annotation anchor was lost) this looks for a concrete
failing input by running the property statement on the REAL code of /repo's working tree (scratch copy, removed
afterwards). It never decides a property on its own: a clean search leaves the verdict where the verifier put it."""
import os, sys, re, json, shutil, subprocess, tempfile, time

VERIF = os.path.dirname(os.path.dirname(os.path.abspath(__file__)))
REPO = os.environ.get("VERIF_REPO", "/repo")

SEARCHERS = {
    "C01": {"file": "search/container.rs", "mode": "integration", "env": {"VERIF_SEARCH": "c01"}},
    "C06": {"file": "search/container.rs", "mode": "integration", "env": {"VERIF_SEARCH": "c06"}},
    "C11": {"file": "search/container.rs", "mode": "integration", "env": {"VERIF_SEARCH": "c11"}},
    "C13": {"file": "search/container.rs", "mode": "integration", "env": {"VERIF_SEARCH": "c13"}},
    "C12": {"file": "search/container.rs", "mode": "integration", "env": {"VERIF_SEARCH": "c12"}},
    "C10": {"file": "search/codec.rs", "mode": "append", "target": "src/cabac_codec.rs"},
    "C08": {"file": "search/header.rs", "mode": "append", "target": "src/preflate_parameter_estimator.rs"},
    "C07": {"file": "search/deflate.rs", "mode": "append", "target": "src/process.rs"},
    "C03": {"file": "search/deflate.rs", "mode": "append", "target": "src/process.rs", "env": {"VERIF_SEARCH": "c03"}},
    "C08P": {"file": "search/deflate.rs", "mode": "append", "target": "src/process.rs", "env": {"VERIF_SEARCH": "c08p"}},
    "C05": {"file": "search/deflate.rs", "mode": "append", "target": "src/process.rs", "env": {"VERIF_SEARCH": "c05"}},
    # thorough tier: zlib's own inflate as the oracle (keeps the libz-sys dev-dependency: a C build)
    "C03Z": {"file": "search/deflate.rs", "mode": "append", "target": "src/process.rs", "env": {"VERIF_SEARCH": "c03z"}, "keep_dev": ["libz-sys"], "cfg": "verif_zlib"},
    "C04": {"file": "search/golden.rs", "mode": "integration", "env": {"VERIF_GOLDEN_FILE": os.path.join(VERIF, "golden", "golden.txt")}},
    "C02": {"file": "search/deflate.rs", "mode": "append", "target": "src/process.rs", "env": {"VERIF_SEARCH": "c02"}},
}


def run_search(prop, timeout=1500, extra_env=None, want_output=False):
    sp = SEARCHERS.get(prop)
    if sp is None:
        return None
    d = tempfile.mkdtemp(prefix="verif_search_")
    t0 = time.time()
    try:
        for item in ("src", "Cargo.toml", "Cargo.lock", "samples"):
            s = os.path.join(REPO, item)
            if os.path.isdir(s):
                shutil.copytree(s, os.path.join(d, item))
            elif os.path.exists(s):
                shutil.copy(s, os.path.join(d, item))
        # the searcher needs no dev-dependencies: drop them so that no C libraries have to be built
        ct = open(os.path.join(d, "Cargo.toml")).read()
        keep = sp.get("keep_dev", [])
        devsec = re.search(r"\[dev-dependencies\][^\[]*", ct)
        kept = [l for l in (devsec.group(0).split("\n") if devsec else []) if any(l.strip().startswith(k) for k in keep)]
        ct = re.sub(r"\[dev-dependencies\][^\[]*", ("[dev-dependencies]\n" + "\n".join(kept) + "\n") if kept else "", ct)
        open(os.path.join(d, "Cargo.toml"), "w").write(ct)
        body = open(os.path.join(VERIF, sp["file"])).read()
        if sp["mode"] == "integration":
            os.makedirs(os.path.join(d, "tests"), exist_ok=True)
            open(os.path.join(d, "tests", "verif_search.rs"), "w").write(body)
            cmd = ["cargo", "test", "--release", "--offline", "--test", "verif_search", "--", "--nocapture", "--test-threads", "1"]
        else:
            with open(os.path.join(d, sp["target"]), "a") as f:
                f.write("\n\n" + body + "\n")
            cmd = ["cargo", "test", "--release", "--offline", "--lib", "verif_search", "--", "--nocapture", "--test-threads", "1"]
        # optimised build, but with the arithmetic semantics the verification uses and the test suite runs under:
        # an overflow is a panic
        env = dict(os.environ, CARGO_NET_OFFLINE="true", RUST_BACKTRACE="0", RUSTFLAGS="-C overflow-checks=on" + ((" --cfg " + sp["cfg"]) if sp.get("cfg") else ""), **sp.get("env", {}))
        env.update(extra_env or {})
        try:
            p = subprocess.run(cmd, cwd=d, capture_output=True, text=True, timeout=timeout, env=env)
            out = p.stdout + "\n" + p.stderr
            rc = p.returncode
        except subprocess.TimeoutExpired as e:
            out = "TIMEOUT"; rc = -9
        # (compiler diagnostics quote source lines: those contain the println! call itself and are not output)
        found = [l[l.index("FAILING-INPUT"):] for l in out.split("\n") if "FAILING-INPUT" in l and "println!" not in l and "{:?}" not in l]
        done = [l[l.index("SEARCH-DONE"):] for l in out.split("\n") if "SEARCH-DONE" in l and "println!" not in l and "{}" not in l]
        res = {"searcher": sp["file"], "cmd": " ".join(cmd), "env": sp.get("env", {}), "rc": rc, "wall_s": round(time.time() - t0, 1),
               "failing_input": found[0][:20000] if found else None, "completed": bool(done),
               "output_tail": out[-1500:] if (found or not done) else done[0]}
        if want_output:
            res["output"] = out
        return res
    finally:
        shutil.rmtree(d, ignore_errors=True)


if __name__ == "__main__":
    r = run_search(sys.argv[1])
    print(json.dumps(r, indent=1)[:6000])
    sys.exit(1 if r and r.get("failing_input") else 0)
