#!/usr/bin/env python3
"""Runs one contract unit through Verus and maps diagnostics back to named obligations."""
import sys, os, re, json, subprocess, time, hashlib
sys.path.insert(0, os.path.dirname(os.path.abspath(__file__)))
import gen

VERIF = gen.VERIF
BUILD = os.environ.get("VERIF_BUILD", os.path.join(VERIF, "build"))

SEMANTIC = [
    "postcondition not satisfied", "precondition not satisfied", "precondition not met", "invariant not satisfied",
    "loop invariant not satisfied", "assertion failed", "possible arithmetic underflow/overflow",
    "possible division by zero", "decreases not satisfied", "possible bit shift underflow/overflow",
    "recommendation not met", "unreachable", "panic", "possible truncation", "could not prove termination",
    "assert_forall_by", "failed", "not satisfied", "might not be allowed", "possible",
]
UNDECIDED_MARKERS = ["Resource limit (rlimit) exceeded", "resource limit", "timed out", "timeout"]

ASSUMPTION_PATTERNS = [r"\bassume\s*\(", r"\badmit\s*\(", r"external_body", r"assume_specification",
                       r"external_trait_specification", r"external_type_specification",
                       r"external_fn_specification", r"#\[verifier::external\b", r"uninterp\s+spec\s+fn"]


def scan_assumptions(text):
    """mechanical scan of the emitted file for every assumption-introducing construct"""
    found = []
    lines = text.split("\n")
    for i, l in enumerate(lines):
        code = l.split("//")[0]
        for pat in ASSUMPTION_PATTERNS:
            if re.search(pat, code):
                # name: next fn/struct/trait identifier at or after this line
                name = None
                for k in range(i, min(i + 8, len(lines))):
                    m = re.search(r"\b(fn|struct|trait|enum)\s+(\w+)", lines[k])
                    if m:
                        name = m.group(2); break
                found.append("%s: %s" % (pat.replace("\\b", "").replace("\\s*\\(", "(").replace("\\s+", " ").replace("\\[", "[").replace("#[verifier::external", "verifier::external"), name or l.strip()[:60]))
    # de-duplicate, keep order
    seen, out = set(), []
    for f in found:
        if f not in seen:
            seen.add(f); out.append(f)
    return out


def enclosing_fn(text_lines, line):
    for k in range(line - 1, -1, -1):
        m = re.search(r"\bfn\s+(\w+)", gen.strip_ghost_markers(text_lines[k]) if hasattr(gen, "strip_ghost_markers") else text_lines[k])
        if m:
            return m.group(1)
    return "?"


def run_verus(path, rlimit=None, seed=None, extra=None, timeout=900):
    cmd = ["verus", os.path.basename(path), "--error-format=json", "--output-json", "--time", "--multiple-errors", "40"]
    if rlimit:
        cmd += ["--rlimit", str(rlimit)]
    if seed is not None:
        cmd += ["--smt-option", "smt.random_seed=%d" % seed]
    if extra:
        cmd += extra
    t0 = time.time()
    try:
        p = subprocess.run(cmd, cwd=os.path.dirname(path), capture_output=True, text=True, timeout=timeout)
        rc, so, se = p.returncode, p.stdout, p.stderr
    except subprocess.TimeoutExpired as e:
        rc, so, se = -9, e.stdout or "", (e.stderr or "") + "\nTIMEOUT"
        if isinstance(so, bytes): so = so.decode(errors="replace")
        if isinstance(se, bytes): se = se.decode(errors="replace")
    wall = time.time() - t0
    diags = []
    for line in se.split("\n"):
        line = line.strip()
        if line.startswith("{") and '"$message_type"' in line:
            try:
                diags.append(json.loads(line))
            except Exception:
                pass
    summary = None
    try:
        summary = json.loads(so[so.index("{"):]) if "{" in so else None
    except Exception:
        summary = None
    return {"cmd": " ".join(cmd), "rc": rc, "diags": diags, "summary": summary, "wall": wall, "stderr": se, "stdout": so}


def classify(msg):
    low = msg.lower()
    for u in UNDECIDED_MARKERS:
        if u.lower() in low:
            return "undecided"
    for s in SEMANTIC[:15]:
        if s in low:
            return "semantic"
    return "other"


def map_diag(d, lines_tag, text_lines, unit):
    """-> (obligation id, kind, detail)"""
    msg = d["message"]
    spans = d.get("spans", [])
    # a span inside a macro expansion (assert!, vec!, ...) points into the macro's own file: use the place in the
    # unit file where the macro was invoked
    def own(sp):
        seen = 0
        while sp is not None and not os.path.basename(sp.get("file_name", "")).startswith(unit) and sp.get("expansion") and seen < 8:
            sp = sp["expansion"].get("span"); seen += 1
        return sp
    spans = [x for x in (own(sp) for sp in spans) if x is not None]
    clause_span = None
    primary = None
    for s in spans:
        if s.get("label") and ("failed this" in s["label"] or "failed precondition" in s["label"]):
            clause_span = s
        if s.get("is_primary"):
            primary = s
    if primary is None and spans:
        primary = spans[0]
    def tag_at(line):
        return lines_tag.get(line, {})
    site_line = primary["line_start"] if primary else 0
    site_tag = tag_at(site_line)
    site_src = text_lines[site_line - 1].strip() if 0 < site_line <= len(text_lines) else ""
    site_src = re.sub(r"/\*[+-]g\*/", "", site_src).strip()
    detail = {"message": msg, "site": site_src, "site_line": site_line}
    if site_tag.get("src"):
        detail["repo"] = site_tag["src"]
    fn = site_tag.get("fn")
    if "precondition not satisfied" in msg or "precondition not met" in msg:
        # obligation belongs to the caller: <fn>.safety ; detail carries callee clause
        if clause_span:
            detail["callee_clause"] = clause_span["text"][0]["text"].strip() if clause_span.get("text") else ""
        if fn is None:
            fn = enclosing_fn(text_lines, site_line)
            sec = site_tag.get("section", "raw")
            return "%s.%s.%s" % (unit, sec if sec in ("raw", "inject") else "raw", fn), "precondition", detail
        if site_tag.get("ghost"):
            return "%s.%s.%s.%s" % (unit, fn, site_tag.get("section"), site_tag.get("clause") or "proof"), "precondition(proof)", detail
        return "%s.%s.safety" % (unit, fn), "precondition", detail
    if "decreases not satisfied" in msg and fn is not None:
        for ln in range(site_line, site_line + 60):
            tg = lines_tag.get(ln, {})
            if tg.get("fn") == fn and (tg.get("section") or "").startswith("loop") and (tg.get("clause") or "").startswith("decreases"):
                return "%s.%s.%s.%s" % (unit, fn, tg["section"], tg["clause"]), msg, detail
    use = clause_span or primary
    line = use["line_start"] if use else 0
    tag = tag_at(line)
    fn2 = tag.get("fn")
    if fn2 is None:
        name = enclosing_fn(text_lines, line)
        sec = tag.get("section", "raw")
        return "%s.%s.%s" % (unit, "raw" if sec not in ("inject",) else "inject", name), msg, detail
    if tag.get("ghost") and tag.get("section") not in ("src", None):
        cid = tag.get("clause")
        if cid is None:
            cid = "proof"
        if cid.startswith("text"):
            cid = "proof"
        return "%s.%s.%s.%s" % (unit, fn2, tag.get("section"), cid), msg, detail
    return "%s.%s.safety" % (unit, fn2), msg, detail


def run_unit(vc_path, canary=False, rlimit=None, seed=None, tag=""):
    """returns dict with status ok|violated|undecided"""
    res = {"vc": os.path.basename(vc_path), "canary": canary}
    t0 = time.time()
    res["lenient"] = False
    try:
        g = gen.generate(vc_path, BUILD, canary=canary)
    except gen.LostAnchor as e:
        # degrade: drop the proof hints / loop contracts whose anchors are gone and see what the verifier says
        res["lenient"] = True
        res["lost_first"] = str(e)
        try:
            g = gen.generate(vc_path, BUILD, canary=canary, lenient=True)
        except gen.LostAnchor as e2:
            res.update(status="undecided", reason="lost-anchor: %s" % e2, unit=os.path.basename(vc_path)[:-3])
            return res
        except (gen.ContractSyntax, ValueError, KeyError, IndexError) as e2:
            res.update(status="undecided", reason="generator: %r" % e2, unit=os.path.basename(vc_path)[:-3])
            return res
        res["lost_hints"] = g.get("lost_hints", [])
    except (gen.ContractSyntax, ValueError, KeyError, IndexError) as e:
        res.update(status="undecided", reason="generator: %r" % e, unit=os.path.basename(vc_path)[:-3])
        return res
    unit = g["unit"]
    res["unit"] = unit
    os.makedirs(BUILD, exist_ok=True)
    path = os.path.join(BUILD, unit + ("_canary" if canary else "") + tag + ".rs")
    open(path, "w").write(g["text"])
    probs, _ = gen.erasure_check(g)
    res["functions"] = g["functions"]
    res["rewrites"] = g["rewrites"]
    res["dropped"] = g["dropped"]
    res["obligation_ids"] = g["obligations"]
    res["assumption_scan"] = scan_assumptions(gen.strip_ghost(g["text"]) + g["text"])
    if probs:
        res.update(status="undecided", reason="erasure self-check failed for: %s" % probs)
        return res
    lines_tag = {}
    for (ln, tg) in g["lines"]:
        # later parts on the same line override only if they carry a fn tag
        if ln not in lines_tag or tg.get("fn") or tg.get("section"):
            if tg:
                prev = lines_tag.get(ln, {})
                # prefer ghost clause tags over plain src on the same line
                if prev.get("clause") and not tg.get("clause"):
                    continue
                lines_tag[ln] = tg
    text_lines = g["text"].split("\n")
    r = run_verus(path, rlimit=rlimit, seed=seed)
    res["cmd"] = r["cmd"]
    res["verus_wall_s"] = round(r["wall"], 2)
    summ = r["summary"] or {}
    vr = summ.get("verification-results", {})
    res["verus_verified"] = vr.get("verified")
    res["verus_errors"] = vr.get("errors")
    tm = summ.get("times-ms", {})
    res["smt_ms"] = (tm.get("smt") or {}).get("total") if isinstance(tm.get("smt"), dict) else None
    res["times_ms"] = {k: (v if not isinstance(v, dict) else v.get("total")) for k, v in tm.items() if k in ("total", "smt", "verification", "rust", "total-verify")}
    fails, undec, canaries_hit = [], [], []
    unclaimed_failed = []
    for d in r["diags"]:
        if d.get("level") != "error":
            continue
        msg = d["message"]
        if msg.startswith("aborting due to"):
            continue
        cls = classify(msg)
        if cls == "undecided":
            undec.append(msg + " :: " + (d.get("rendered") or "")[:300])
            continue
        if cls == "other":
            undec.append("tool/dialect error: " + (d.get("rendered") or msg)[:600])
            continue
        oid, kind, detail = map_diag(d, lines_tag, text_lines, unit)
        detail["rendered"] = d.get("rendered", "")
        if ".canary." in oid or oid.endswith(".canary"):
            canaries_hit.append(oid)
            continue
        if oid in g.get("unclaimed", []):
            unclaimed_failed.append({"id": oid, "kind": kind, "site": detail.get("site")})
            continue
        fails.append({"id": oid, "kind": kind, "detail": detail})
    res["failed"] = fails
    res["unclaimed"] = g.get("unclaimed", [])
    res["unclaimed_failed"] = unclaimed_failed
    res["obligation_ids"] = [i for i in g["obligations"] if i not in g.get("unclaimed", [])]
    res["undecided_msgs"] = undec
    res["canaries_hit"] = canaries_hit
    res["wall_s"] = round(time.time() - t0, 2)
    if r["rc"] == -9:
        res.update(status="undecided", reason="verus timeout")
    elif undec:
        res.update(status="undecided", reason=undec[0][:400])
    elif r["summary"] is None:
        res.update(status="undecided", reason="no verus summary (tool crash?) " + r["stderr"][-400:])
    elif fails:
        res.update(status="violated")
    elif (vr.get("success") or (unclaimed_failed and not fails)) and vr.get("verified", 0) > 0:
        res.update(status="ok")
    elif canary:
        res.update(status="ok")
    else:
        res.update(status="undecided", reason="verus reported no success and no mapped failure: rc=%s %s" % (r["rc"], r["stderr"][-400:]))
    return res


def expected_canaries(vc_path):
    g = gen.generate(vc_path, BUILD, canary=True)
    exp = set()
    for (ln, tg) in g["lines"]:
        if tg.get("section", "").startswith("canary"):
            exp.add("%s.%s.%s.canary" % (g["unit"], tg["fn"], tg["section"]))
    return exp


if __name__ == "__main__":
    import argparse
    ap = argparse.ArgumentParser()
    ap.add_argument("vc")
    ap.add_argument("--canary", action="store_true")
    a = ap.parse_args()
    r = run_unit(a.vc, canary=a.canary)
    r2 = dict(r); r2.pop("obligation_ids", None)
    print(json.dumps(r2, indent=1)[:6000])
    if a.canary:
        print("expected canaries:", sorted(expected_canaries(a.vc)))
