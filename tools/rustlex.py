"""Small Rust lexer + item locator used by the contract generator.

It understands enough of Rust's lexical grammar (comments, nested block comments,
string / raw string / byte string / char literals, lifetimes) to find item boundaries by
brace matching, and to compare token streams (erasure self-check).
"""
import re

class Tok:
    __slots__ = ("kind", "text", "start", "end")
    def __init__(self, kind, text, start, end):
        self.kind, self.text, self.start, self.end = kind, text, start, end
    def __repr__(self):
        return "Tok(%s,%r,%d)" % (self.kind, self.text, self.start)

_ident = re.compile(r"[A-Za-z_][A-Za-z0-9_]*")
_num = re.compile(r"[0-9][0-9A-Za-z_]*(\.[0-9][0-9A-Za-z_]*)?")
_punct3 = ("<<=", ">>=", "...", "..=")
_punct2 = ("::", "->", "=>", "==", "!=", "<=", ">=", "&&", "||", "+=", "-=", "*=", "/=",
           "%=", "^=", "&=", "|=", "<<", ">>", "..")


def lex(src, keep_comments=False):
    """Return list of Tok. kinds: id, num, str, char, life, punct, comment."""
    toks = []
    i, n = 0, len(src)
    while i < n:
        c = src[i]
        if c in " \t\r\n":
            i += 1
            continue
        if src.startswith("//", i):
            j = src.find("\n", i)
            if j < 0:
                j = n
            if keep_comments:
                toks.append(Tok("comment", src[i:j], i, j))
            i = j
            continue
        if src.startswith("/*", i):
            depth, j = 1, i + 2
            while j < n and depth > 0:
                if src.startswith("/*", j):
                    depth += 1; j += 2
                elif src.startswith("*/", j):
                    depth -= 1; j += 2
                else:
                    j += 1
            if keep_comments:
                toks.append(Tok("comment", src[i:j], i, j))
            i = j
            continue
        # raw strings r"..", r#".."#, br#".."#
        m = re.match(r"(b?r)(#*)\"", src[i:i + 40])
        if m:
            hashes = m.group(2)
            endmark = '"' + hashes
            j = src.find(endmark, i + len(m.group(0)))
            if j < 0:
                raise ValueError("unterminated raw string at %d" % i)
            j += len(endmark)
            toks.append(Tok("str", src[i:j], i, j))
            i = j
            continue
        if c == '"' or (c == 'b' and i + 1 < n and src[i + 1] == '"'):
            j = i + (2 if c == 'b' else 1)
            while j < n and src[j] != '"':
                if src[j] == '\\':
                    j += 1
                j += 1
            j += 1
            toks.append(Tok("str", src[i:j], i, j))
            i = j
            continue
        if c == "'" or (c == 'b' and i + 1 < n and src[i + 1] == "'"):
            k = i + (1 if c == 'b' else 0)
            # char literal or lifetime
            if k + 1 < n and src[k + 1] == '\\':
                j = k + 2
                while j < n and src[j] != "'":
                    j += 1
                j += 1
                toks.append(Tok("char", src[i:j], i, j))
                i = j
                continue
            if k + 2 < n and src[k + 2] == "'":
                j = k + 3
                toks.append(Tok("char", src[i:j], i, j))
                i = j
                continue
            # multibyte char literal like 'é'
            m2 = re.match(r"'[^'\\\n]'", src[k:k + 8])
            if m2:
                j = k + len(m2.group(0))
                toks.append(Tok("char", src[i:j], i, j))
                i = j
                continue
            m2 = _ident.match(src, k + 1)
            if m2 and c == "'":
                toks.append(Tok("life", src[i:m2.end()], i, m2.end()))
                i = m2.end()
                continue
        m = _ident.match(src, i)
        if m:
            toks.append(Tok("id", m.group(0), i, m.end()))
            i = m.end()
            continue
        m = _num.match(src, i)
        if m:
            # avoid swallowing `0..5` as a float
            t = m.group(0)
            if "." in t and src.startswith("..", i + t.index(".")):
                t = t[:t.index(".")]
            toks.append(Tok("num", t, i, i + len(t)))
            i += len(t)
            continue
        for p in _punct3:
            if src.startswith(p, i):
                toks.append(Tok("punct", p, i, i + 3)); i += 3
                break
        else:
            for p in _punct2:
                if src.startswith(p, i):
                    toks.append(Tok("punct", p, i, i + 2)); i += 2
                    break
            else:
                toks.append(Tok("punct", c, i, i + 1)); i += 1
    return toks


def token_texts(src):
    return [t.text for t in lex(src)]


OPEN = {"(": ")", "[": "]", "{": "}"}
CLOSE = {")": "(", "]": "[", "}": "{"}


def match_close(toks, i):
    """toks[i] is an opening bracket; return index of its matching close."""
    assert toks[i].text in OPEN, toks[i]
    depth = 0
    for j in range(i, len(toks)):
        t = toks[j]
        if t.kind != "punct":
            continue
        if t.text in OPEN:
            depth += 1
        elif t.text in CLOSE:
            depth -= 1
            if depth == 0:
                return j
    raise ValueError("unbalanced bracket at %d" % toks[i].start)


ITEM_KW = ("fn", "struct", "enum", "const", "static", "trait", "impl", "type", "mod", "use")


class Item:
    """A located item: kind, name, header (for impl), token index range, source range incl. attributes."""
    def __init__(self, kind, name, src, toks, a_idx, kw_idx, end_idx, body_open=None):
        self.kind, self.name = kind, name
        self.src, self.toks = src, toks
        self.a_idx = a_idx        # first token incl. attributes / visibility
        self.kw_idx = kw_idx      # the keyword token
        self.end_idx = end_idx    # last token (closing brace or ;)
        self.body_open = body_open  # index of '{' for fn/impl/trait/struct/enum bodies or None
    @property
    def start(self):
        return self.toks[self.a_idx].start
    @property
    def end(self):
        return self.toks[self.end_idx].end
    @property
    def text(self):
        return self.src[self.start:self.end]
    def header_text(self):
        """text from keyword up to (not including) body '{'"""
        if self.body_open is None:
            return self.src[self.toks[self.kw_idx].start:self.end]
        return self.src[self.toks[self.kw_idx].start:self.toks[self.body_open].start]
    def attrs(self):
        """list of attribute texts (#[..]) preceding the item"""
        out = []
        i = self.a_idx
        while i < self.kw_idx and self.toks[i].text == "#":
            j = i + 1
            if self.toks[j].text == "!":
                j += 1
            k = match_close(self.toks, j)
            out.append(self.src[self.toks[i].start:self.toks[k].end])
            i = k + 1
        return out
    def is_test(self):
        for a in self.attrs():
            s = re.sub(r"\s", "", a)
            if s == "#[test]" or s.startswith("#[cfg(test)"):
                return True
        return False


def items_in(src, toks, lo, hi):
    """Enumerate items whose tokens lie in toks[lo:hi] at nesting depth 0 of that range."""
    out = []
    i = lo
    while i < hi:
        a_idx = i
        # attributes
        while i < hi and toks[i].text == "#":
            j = i + 1
            if toks[j].text == "!":
                j += 1
            if toks[j].text != "[":
                break
            i = match_close(toks, j) + 1
        # visibility / qualifiers
        while i < hi and toks[i].kind == "id" and toks[i].text in ("pub", "unsafe", "extern", "async", "default") \
                or (i < hi and toks[i].kind == "str" and i > lo and toks[i - 1].text == "extern"):
            i += 1
            if i < hi and toks[i].text == "(" and toks[i - 1].text == "pub":
                i = match_close(toks, i) + 1
        if i >= hi:
            break
        t = toks[i]
        if t.kind == "id" and t.text == "const" and i + 1 < hi and toks[i + 1].text in ("fn", "unsafe"):
            i += 1
            continue
        if t.kind == "id" and t.text in ITEM_KW:
            kw = i
            kind = t.text
            name = None
            if kind == "impl":
                name = None
            elif i + 1 < hi and toks[i + 1].kind == "id":
                name = toks[i + 1].text
            # find end: first ';' or '{' at depth 0 (parens/brackets/angle-free scan)
            j = i + 1
            body_open = None
            while j < hi:
                tt = toks[j]
                if tt.kind == "punct" and tt.text in ("(", "["):
                    j = match_close(toks, j) + 1
                    continue
                if tt.kind == "punct" and tt.text == ";":
                    end = j
                    break
                if tt.kind == "punct" and tt.text == "{":
                    # `const X: T = Foo { .. };` / `static` have initialisers with braces
                    if kind in ("const", "static", "type", "use"):
                        j = match_close(toks, j) + 1
                        continue
                    body_open = j
                    end = match_close(toks, j)
                    break
                j += 1
            else:
                raise ValueError("item without end at %d" % t.start)
            # tuple/unit structs: `struct X(..);` handled by ';' branch.
            out.append(Item(kind, name, src, toks, a_idx, kw, end, body_open))
            i = end + 1
            continue
        # macro invocation or stray token: skip bracketed groups
        if t.kind == "punct" and t.text in OPEN:
            i = match_close(toks, i) + 1
        else:
            i += 1
    return out


class SourceFile:
    def __init__(self, path):
        self.path = path
        self.src = open(path).read()
        self.toks = lex(self.src)
        self.items = items_in(self.src, self.toks, 0, len(self.toks))

    def find(self, kind, name):
        r = [it for it in self.items if it.kind == kind and it.name == name and not it.is_test()]
        return r

    def impls(self, header_substr):
        """impl blocks whose whitespace-normalised header contains header_substr"""
        want = norm_ws(header_substr)
        return [it for it in self.items if it.kind == "impl" and want in norm_ws(it.header_text())
                and not it.is_test()]

    def sub_items(self, parent):
        return items_in(self.src, self.toks, parent.body_open + 1, parent.end_idx)


def norm_ws(s):
    return " ".join(token_texts(s))
