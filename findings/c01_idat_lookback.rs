// Replay for D5 (obligation U6.split_into_deflate_streams.safety: `real_start - prev_index` underflow): the 4-byte IDAT
// look-back reaches into the previously accepted zlib stream.
use preflate_rs::{expand_zlib_chunks, recreated_zlib_chunks};

fn crc32(data: &[u8]) -> u32 {
    let mut c: u32 = 0xFFFF_FFFF;
    for &b in data {
        c ^= b as u32;
        for _ in 0..8 { c = if c & 1 != 0 { (c >> 1) ^ 0xEDB8_8320 } else { c >> 1 }; }
    }
    !c
}

fn stored(data: &[u8]) -> Vec<u8> {
    let mut z = vec![0x01u8];
    z.extend_from_slice(&(data.len() as u16).to_le_bytes());
    z.extend_from_slice(&(!(data.len() as u16)).to_le_bytes());
    z.extend_from_slice(data);
    z
}

#[test]
fn d5_idat_lookback_overlaps_previous_chunk() {
    // IDAT payload: a complete zlib stream (stored block of 1100 bytes + Adler-32 placeholder)
    let inner: Vec<u8> = (0..1100u32).map(|i| (i * 13 % 241) as u8).collect();
    let mut payload = vec![0x78u8, 0x01];
    payload.extend_from_slice(&stored(&inner));
    payload.extend_from_slice(&[1, 2, 3, 4]);
    // outer zlib stream whose last four data bytes are the big-endian IDAT length
    let mut outer: Vec<u8> = (0..1200u32).map(|i| (i * 5 % 239) as u8).collect();
    let n = outer.len();
    outer[n - 4..].copy_from_slice(&(payload.len() as u32).to_be_bytes());
    let mut f = vec![0x78u8, 0x01];
    f.extend_from_slice(&stored(&outer));
    f.extend_from_slice(b"IDAT");
    f.extend_from_slice(&payload);
    let mut t = b"IDAT".to_vec();
    t.extend_from_slice(&payload);
    f.extend_from_slice(&crc32(&t).to_be_bytes());
    let expanded = expand_zlib_chunks(&f, 0).expect("expand must return Ok");
    let mut out = Vec::new();
    recreated_zlib_chunks(&mut std::io::Cursor::new(expanded), &mut out).expect("recreate");
    assert_eq!(out, f);
}
