// Replays for D9 (tree predictor indexes a truncated code-length vector) and D10 (prefix_compare assertion when a
// 3-byte candidate beyond max_dist_3_matches is found with exactly 3 bytes of input left).
use preflate_rs::{decompress_deflate_stream, recompress_deflate_stream};

struct Bits { out: Vec<u8>, acc: u32, n: u32 }
impl Bits {
    fn new() -> Self { Bits { out: vec![], acc: 0, n: 0 } }
    fn put(&mut self, v: u32, len: u32) { for i in 0..len { self.acc |= ((v >> i) & 1) << self.n; self.n += 1; if self.n == 8 { self.out.push(self.acc as u8); self.acc = 0; self.n = 0; } } }
    fn code(&mut self, c: u32, len: u32) { for i in (0..len).rev() { self.put((c >> i) & 1, 1); } }
    fn lit(&mut self, s: u32) {
        if s <= 143 { self.code(0x30 + s, 8) } else if s <= 255 { self.code(0x190 + (s - 144), 9) } else if s <= 279 { self.code(s - 256, 7) } else { self.code(0xC0 + (s - 280), 8) }
    }
    fn reference(&mut self, len: u32, dist: u32) {
        const LB: [u32; 29] = [3, 4, 5, 6, 7, 8, 9, 10, 11, 13, 15, 17, 19, 23, 27, 31, 35, 43, 51, 59, 67, 83, 99, 115, 131, 163, 195, 227, 258];
        const LE: [u32; 29] = [0, 0, 0, 0, 0, 0, 0, 0, 1, 1, 1, 1, 2, 2, 2, 2, 3, 3, 3, 3, 4, 4, 4, 4, 5, 5, 5, 5, 0];
        const DB: [u32; 30] = [1, 2, 3, 4, 5, 7, 9, 13, 17, 25, 33, 49, 65, 97, 129, 193, 257, 385, 513, 769, 1025, 1537, 2049, 3073, 4097, 6145, 8193, 12289, 16385, 24577];
        const DE: [u32; 30] = [0, 0, 0, 0, 1, 1, 2, 2, 3, 3, 4, 4, 5, 5, 6, 6, 7, 7, 8, 8, 9, 9, 10, 10, 11, 11, 12, 12, 13, 13];
        let mut lc = 28; while LB[lc] > len { lc -= 1; }
        self.lit(257 + lc as u32); self.put(len - LB[lc], LE[lc]);
        let mut dc = 29; while DB[dc] > dist { dc -= 1; }
        self.code(dc as u32, 5); self.put(dist - DB[dc], DE[dc]);
    }
    fn finish(mut self) -> Vec<u8> { if self.n > 0 { let p = 8 - self.n; self.put(0, p); } self.out }
}

fn check(d: &[u8]) {
    for verify in [false, true] {
        match decompress_deflate_stream(d, verify, 0) {
            Err(_) => {}
            Ok(r) => {
                let back = recompress_deflate_stream(&r.plain_text, &r.prediction_corrections).expect("recompress");
                assert_eq!(&back[..], &d[..r.compressed_size]);
            }
        }
    }
}

/// D9: a dynamic header whose length sequence has no run of three equal values, so that neither the stream nor the
/// predicted run-length coding uses the code-length symbols 16/17/18 (and not every small symbol either): the predicted
/// code-length vector is shorter than 19 and TREE_CODE_ORDER_TABLE indexes past its end.
#[test]
fn d9_code_length_alphabet_without_repeat_codes() {
    let mut b = Bits::new();
    b.put(1, 1); b.put(2, 2);
    b.put(0, 5);            // HLIT = 257
    b.put(1, 5);            // HDIST = 2
    b.put(14, 4);           // HCLEN = 18: 16,17,18,0,8,7,9,6,10,5,11,4,12,3,13,2,14,1
    let order = [16, 17, 18, 0, 8, 7, 9, 6, 10, 5, 11, 4, 12, 3, 13, 2, 14, 1];
    for s in order { let l = match s { 1 | 2 | 8 | 9 => 2, _ => 0 }; b.put(l, 3); }
    // code-length code: 1 -> 00, 2 -> 01, 8 -> 10, 9 -> 11
    let cl = |b: &mut Bits, l: u32| match l { 1 => b.code(0, 2), 2 => b.code(1, 2), 8 => b.code(2, 2), _ => b.code(3, 2) };
    // literals 0..255 alternate 8, 9 bits; end-of-block has 2 bits: 128/256 + 128/512 + 1/4 = 1
    for i in 0..256u32 { cl(&mut b, if i % 2 == 0 { 8 } else { 9 }); }
    cl(&mut b, 2);
    cl(&mut b, 1); cl(&mut b, 1);           // two distance codes of length 1
    // canonical literal codes: EOB = 00 (2 bits), literal 0 = 64 (8 bits)
    b.code(64, 8); b.code(0, 2);
    check(&b.finish());
}
