// Replays for D7 (add-policy limit 256/257 does not fit its 8-bit field) and D8 (min_len left at u32::MAX when a
// Huffman-only stream also contains a stored block: u16::try_from(..).unwrap() panics in PreflateParameters::write).
use preflate_rs::{decompress_deflate_stream, recompress_deflate_stream};

struct Bits { out: Vec<u8>, acc: u32, n: u32 }
impl Bits {
    fn new() -> Self { Bits { out: vec![], acc: 0, n: 0 } }
    fn put(&mut self, v: u32, len: u32) { for i in 0..len { self.acc |= ((v >> i) & 1) << self.n; self.n += 1; if self.n == 8 { self.out.push(self.acc as u8); self.acc = 0; self.n = 0; } } }
    fn code(&mut self, c: u32, len: u32) { for i in (0..len).rev() { self.put((c >> i) & 1, 1); } }
    fn lit(&mut self, s: u32) {
        if s <= 143 { self.code(0x30 + s, 8) } else if s <= 255 { self.code(0x190 + (s - 144), 9) } else if s <= 279 { self.code(s - 256, 7) } else { self.code(0xC0 + (s - 280), 8) }
    }
    fn reference(&mut self, len: u32, dist: u32) {
        const LB: [u32; 29] = [3, 4, 5, 6, 7, 8, 9, 10, 11, 13, 15, 17, 19, 23, 27, 31, 35, 43, 51, 59, 67, 83, 99, 115, 131, 163, 195, 227, 258];
        const LE: [u32; 29] = [0, 0, 0, 0, 0, 0, 0, 0, 1, 1, 1, 1, 2, 2, 2, 2, 3, 3, 3, 3, 4, 4, 4, 4, 5, 5, 5, 5, 0];
        const DB: [u32; 30] = [1, 2, 3, 4, 5, 7, 9, 13, 17, 25, 33, 49, 65, 97, 129, 193, 257, 385, 513, 769, 1025, 1537, 2049, 3073, 4097, 6145, 8193, 12289, 16385, 24577];
        const DE: [u32; 30] = [0, 0, 0, 0, 1, 1, 2, 2, 3, 3, 4, 4, 5, 5, 6, 6, 7, 7, 8, 8, 9, 9, 10, 10, 11, 11, 12, 12, 13, 13];
        let mut lc = 28; while LB[lc] > len { lc -= 1; }
        self.lit(257 + lc as u32); self.put(len - LB[lc], LE[lc]);
        let mut dc = 29; while DB[dc] > dist { dc -= 1; }
        self.code(dc as u32, 5); self.put(dist - DB[dc], DE[dc]);
    }
    fn finish(mut self) -> Vec<u8> { if self.n > 0 { let p = 8 - self.n; self.put(0, p); } self.out }
}

fn check(d: &[u8]) {
    for verify in [false, true] {
        match decompress_deflate_stream(d, verify, 0) {
            Err(_) => {}   // a stream the library cannot model may be rejected, never mis-handled
            Ok(r) => {
                let back = recompress_deflate_stream(&r.plain_text, &r.prediction_corrections).expect("recompress");
                assert_eq!(&back[..], &d[..r.compressed_size], "reconstruction differs (verify={})", verify);
            }
        }
    }
}

/// D7: a match whose target lies inside an earlier match of length 257 (or 256)
#[test]
fn d7_add_policy_limit_256_257() {
    for big in [256u32, 257] {
        let mut b = Bits::new();
        b.put(1, 1); b.put(1, 2);
        for i in 0..40u32 { b.lit(b'a' as u32 + (i % 23)); }
        b.reference(big, 23);          // long match, period 23
        b.lit(b'#' as u32);
        b.reference(5, 150);           // target inside the long match
        for i in 0..30u32 { b.lit(b'A' as u32 + (i % 19)); }
        b.reference(4, 10);
        b.lit(256);
        check(&b.finish());
    }
}

/// D8: Huffman-only (no references) fixed block followed by a stored block
#[test]
fn d8_huffman_only_plus_stored_block() {
    let mut b = Bits::new();
    b.put(0, 1); b.put(1, 2);
    for i in 0..50u32 { b.lit(b'a' as u32 + (i % 7)); }
    b.lit(256);
    b.put(1, 1); b.put(0, 2);
    if b.n > 0 { let p = 8 - b.n; b.put(0, p); }
    let data = b"stored block payload";
    let mut out = b.out.clone();
    out.extend_from_slice(&(data.len() as u16).to_le_bytes()); out.extend_from_slice(&(!(data.len() as u16)).to_le_bytes()); out.extend_from_slice(data);
    check(&out);
}
