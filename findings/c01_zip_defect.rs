// Replay for D4 (obligation U6.parse_zip_stream.safety: slice start index past the end)
use preflate_rs::{expand_zlib_chunks, recreated_zlib_chunks};

#[test]
fn d4_zip_extra_field_past_eof() {
    let mut f = vec![0x50u8, 0x4B, 0x03, 0x04];
    f.extend_from_slice(&[20, 0, 0, 0]);      // version, flags
    f.extend_from_slice(&[8, 0]);             // method 8
    f.extend_from_slice(&[0; 16]);            // time, date, crc, sizes
    f.extend_from_slice(&[0, 0]);             // name length 0
    f.extend_from_slice(&[100, 0]);           // extra length 100: runs past EOF
    assert_eq!(f.len(), 30);
    let expanded = expand_zlib_chunks(&f, 0).expect("expand must return Ok for every byte string");
    let mut out = Vec::new();
    recreated_zlib_chunks(&mut std::io::Cursor::new(expanded), &mut out).unwrap();
    assert_eq!(out, f);
}
