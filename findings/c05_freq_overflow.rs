// Replay for D11: the u16 token frequency counters of a dynamic block overflow (panic in debug builds, which is what
// the test suite runs; silent wrap in release builds) once one symbol occurs 65536 times in a block.
use preflate_rs::{decompress_deflate_stream, recompress_deflate_stream};

struct Bits { out: Vec<u8>, acc: u32, n: u32 }
impl Bits {
    fn new() -> Self { Bits { out: vec![], acc: 0, n: 0 } }
    fn put(&mut self, v: u32, len: u32) { for i in 0..len { self.acc |= ((v >> i) & 1) << self.n; self.n += 1; if self.n == 8 { self.out.push(self.acc as u8); self.acc = 0; self.n = 0; } } }
    fn code(&mut self, c: u32, len: u32) { for i in (0..len).rev() { self.put((c >> i) & 1, 1); } }
    fn lit(&mut self, s: u32) {
        if s <= 143 { self.code(0x30 + s, 8) } else if s <= 255 { self.code(0x190 + (s - 144), 9) } else if s <= 279 { self.code(s - 256, 7) } else { self.code(0xC0 + (s - 280), 8) }
    }
    fn reference(&mut self, len: u32, dist: u32) {
        const LB: [u32; 29] = [3, 4, 5, 6, 7, 8, 9, 10, 11, 13, 15, 17, 19, 23, 27, 31, 35, 43, 51, 59, 67, 83, 99, 115, 131, 163, 195, 227, 258];
        const LE: [u32; 29] = [0, 0, 0, 0, 0, 0, 0, 0, 1, 1, 1, 1, 2, 2, 2, 2, 3, 3, 3, 3, 4, 4, 4, 4, 5, 5, 5, 5, 0];
        const DB: [u32; 30] = [1, 2, 3, 4, 5, 7, 9, 13, 17, 25, 33, 49, 65, 97, 129, 193, 257, 385, 513, 769, 1025, 1537, 2049, 3073, 4097, 6145, 8193, 12289, 16385, 24577];
        const DE: [u32; 30] = [0, 0, 0, 0, 1, 1, 2, 2, 3, 3, 4, 4, 5, 5, 6, 6, 7, 7, 8, 8, 9, 9, 10, 10, 11, 11, 12, 12, 13, 13];
        let mut lc = 28; while LB[lc] > len { lc -= 1; }
        self.lit(257 + lc as u32); self.put(len - LB[lc], LE[lc]);
        let mut dc = 29; while DB[dc] > dist { dc -= 1; }
        self.code(dc as u32, 5); self.put(dist - DB[dc], DE[dc]);
    }
    fn finish(mut self) -> Vec<u8> { if self.n > 0 { let p = 8 - self.n; self.put(0, p); } self.out }
}

fn check(d: &[u8]) {
    for verify in [false, true] {
        match decompress_deflate_stream(d, verify, 0) {
            Err(_) => {}
            Ok(r) => {
                let back = recompress_deflate_stream(&r.plain_text, &r.prediction_corrections).expect("recompress");
                assert_eq!(&back[..], &d[..r.compressed_size]);
            }
        }
    }
}

/// D11: one dynamic block with 65536 copies of the literal 'a' (1-bit code), then end-of-block.
#[test]
fn d11_65536_equal_literals_in_one_dynamic_block() {
    let mut b = Bits::new();
    b.put(1, 1); b.put(2, 2);
    b.put(0, 5);            // HLIT = 257
    b.put(1, 5);            // HDIST = 2
    b.put(14, 4);           // HCLEN = 18
    let order = [16, 17, 18, 0, 8, 7, 9, 6, 10, 5, 11, 4, 12, 3, 13, 2, 14, 1];
    for s in order { let l = match s { 1 | 18 => 1, _ => 0 }; b.put(l, 3); }
    // code-length code: 1 -> 0, 18 -> 1
    let zeros = |b: &mut Bits, n: u32| { b.code(1, 1); b.put(n - 11, 7); };
    zeros(&mut b, 97); b.code(0, 1);                    // 'a' has length 1
    zeros(&mut b, 138); zeros(&mut b, 20); b.code(0, 1);  // 98..255 unused, 256 has length 1
    b.code(0, 1); b.code(0, 1);                         // two distance codes of length 1
    for _ in 0..65536 { b.code(0, 1); }                 // 'a' = 0
    b.code(1, 1);                                       // end of block = 1
    check(&b.finish());
}
