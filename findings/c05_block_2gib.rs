// Replay for D12: DeflateReader::decode_block keeps the position inside the block in an i32 (`cur_pos`), which overflows
// once a single block expands to 2 GiB or more (panic in debug builds; silent wrap in release builds, where the value
// only feeds the unused field context_len). Needs about 5 GiB of memory and a minute in a debug build.
use preflate_rs::decompress_deflate_stream;

struct Bits { out: Vec<u8>, acc: u32, n: u32 }
impl Bits {
    fn new() -> Self { Bits { out: vec![], acc: 0, n: 0 } }
    fn put(&mut self, v: u32, len: u32) { for i in 0..len { self.acc |= ((v >> i) & 1) << self.n; self.n += 1; if self.n == 8 { self.out.push(self.acc as u8); self.acc = 0; self.n = 0; } } }
    fn code(&mut self, c: u32, len: u32) { for i in (0..len).rev() { self.put((c >> i) & 1, 1); } }
    fn finish(mut self) -> Vec<u8> { if self.n > 0 { let p = 8 - self.n; self.put(0, p); } self.out }
}

#[test]
fn d12_one_block_expanding_past_2_gib() {
    let mut b = Bits::new();
    b.put(1, 1); b.put(1, 2);          // final block, fixed Huffman
    b.code(0x30 + 97, 8);              // literal 'a'
    let n = (1u64 << 31) / 258 + 2;    // enough (258, 1) references to pass 2^31 bytes
    for _ in 0..n { b.code(0xC0 + 5, 8); b.code(0, 5); }   // length code 285 (258), distance code 0 (1)
    b.code(0, 7);                      // end of block
    let d = b.finish();
    // the result does not matter (Ok or Err), only that the call returns
    let _ = decompress_deflate_stream(&d, false, 0).map(|r| r.compressed_size);
}
