// Replay for D6 (obligation U14w.encode_block_with_decoder: token bits of the non-canonical length-258 form):
// a fixed-Huffman stream that codes length 258 as symbol 284 + extra bits 31 is accepted with verify = false and was
// reconstructed wrongly (31 bits of value 5 written, distance dropped).
use preflate_rs::{decompress_deflate_stream, recompress_deflate_stream};

struct Bits { out: Vec<u8>, acc: u32, n: u32 }
impl Bits {
    fn put(&mut self, v: u32, len: u32) { for i in 0..len { self.acc |= ((v >> i) & 1) << self.n; self.n += 1; if self.n == 8 { self.out.push(self.acc as u8); self.acc = 0; self.n = 0; } } }
    /// Huffman codes are packed most significant bit first
    fn code(&mut self, c: u32, len: u32) { for i in (0..len).rev() { self.put((c >> i) & 1, 1); } }
    fn lit(&mut self, s: u32) {
        if s <= 143 { self.code(0x30 + s, 8) } else if s <= 255 { self.code(0x190 + (s - 144), 9) } else if s <= 279 { self.code(s - 256, 7) } else { self.code(0xC0 + (s - 280), 8) }
    }
}

#[test]
fn d6_noncanonical_length_258() {
    let mut b = Bits { out: vec![], acc: 0, n: 0 };
    b.put(1, 1); b.put(1, 2);           // BFINAL, fixed Huffman
    b.lit(b'a' as u32);
    for _ in 0..6 {
        b.lit(284); b.put(31, 5);       // length 227 + 31 = 258, non-canonical
        b.code(0, 5);                    // distance code 0 = distance 1
    }
    b.lit(256);
    if b.n > 0 { let pad = 8 - b.n; b.put(0, pad); }
    let d = b.out.clone();
    let r = decompress_deflate_stream(&d, false, 0).expect("accepted");
    assert_eq!(r.plain_text.len(), 1 + 6 * 258);
    assert_eq!(r.compressed_size, d.len());
    let back = recompress_deflate_stream(&r.plain_text, &r.prediction_corrections).expect("recompress");
    assert_eq!(back, d, "reconstruction differs from the accepted stream");
}
