// Replay for D10 (obligation U20/U16: prefix_compare's precondition best_len < max_len at every call): to be appended to
// src/hash_chain_holder.rs. A zlib-like parameter vector (3-byte hash, deep chains, max_dist_3_matches = 0), exactly three
// bytes of input left, two earlier occurrences of them.
#[cfg(test)]
mod verif_replay_d10 {
    use super::*;
    use crate::add_policy_estimator::DictionaryAddPolicy;
    use crate::hash_algorithm::HashAlgorithm;
    use crate::preflate_parameter_estimator::PreflateStrategy;
    use crate::preflate_parse_config::MatchingType;

    #[test]
    fn d10_three_bytes_left_two_candidates() {
        let params = TokenPredictorParameters {
            matches_to_start_detected: true, very_far_matches_detected: false, window_bits: 15, strategy: PreflateStrategy::Default,
            nice_length: 258, add_policy: DictionaryAddPolicy::AddAll, max_token_count: 16383, zlib_compatible: true,
            max_dist_3_matches: 0, matching_type: MatchingType::Greedy, max_chain: 4096, min_len: 3,
            hash_algorithm: HashAlgorithm::Zlib { hash_mask: 0x7fff, hash_shift: 5 },
        };
        let mut h = new_hash_chain_holder(&params);
        let data = b"xyzWxyzVxyz";
        let mut input = PreflateInput::new(data);
        for _ in 0..8 { h.update_hash(1, &input); input.advance(1); }
        // must return a MatchResult (Success or NoMoreMatchesFound...), never panic
        let _ = h.match_token_0(0, 4096, &input);
    }
}
