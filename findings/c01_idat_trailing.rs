// Replay for D3 (obligation U6.split_into_deflate_streams.at*.proof: res.compressed_size == payload.len()):
// a PNG IDAT run whose zlib stream has a byte between the last DEFLATE block and the Adler-32.
use preflate_rs::{expand_zlib_chunks, recreated_zlib_chunks};

fn crc32(data: &[u8]) -> u32 {
    let mut c: u32 = 0xFFFF_FFFF;
    for &b in data {
        c ^= b as u32;
        for _ in 0..8 { c = if c & 1 != 0 { (c >> 1) ^ 0xEDB8_8320 } else { c >> 1 }; }
    }
    !c
}

fn idat_chunk(payload: &[u8]) -> Vec<u8> {
    let mut v = (payload.len() as u32).to_be_bytes().to_vec();
    v.extend_from_slice(b"IDAT");
    v.extend_from_slice(payload);
    let mut t = b"IDAT".to_vec();
    t.extend_from_slice(payload);
    v.extend_from_slice(&crc32(&t).to_be_bytes());
    v
}

#[test]
fn d3_bytes_between_last_block_and_adler() {
    let data: Vec<u8> = (0..1100u32).map(|i| (i * 7 % 251) as u8).collect();
    let mut z = vec![0x78u8, 0x01];
    z.push(0x01); // final stored block
    z.extend_from_slice(&(data.len() as u16).to_le_bytes());
    z.extend_from_slice(&(!(data.len() as u16)).to_le_bytes());
    z.extend_from_slice(&data);
    z.push(0xAA); // stray byte before the Adler-32
    z.extend_from_slice(&[1, 2, 3, 4]);
    let mut f = vec![9u8, 9, 9, 9];
    f.extend_from_slice(&idat_chunk(&z));
    f.extend_from_slice(&[7, 7, 7, 7, 7, 7, 7, 7, 7, 7, 7, 7]);
    let expanded = expand_zlib_chunks(&f, 0).expect("expand must return Ok");
    let mut out = Vec::new();
    recreated_zlib_chunks(&mut std::io::Cursor::new(expanded), &mut out).expect("recreate must succeed on expand's output");
    assert_eq!(out, f);
}
