// Replays for the parse_idat defects found by unit U7 (obligations U7.parse_idat.safety / loop0 invariant all_nonzero).
// Run as an integration test of the crate: cp to <repo>/tests/ and `cargo test --offline --test c01_idat_defects`.
use preflate_rs::{expand_zlib_chunks, recreated_zlib_chunks};

fn crc32(data: &[u8]) -> u32 {
    let mut c: u32 = 0xFFFF_FFFF;
    for &b in data {
        c ^= b as u32;
        for _ in 0..8 { c = if c & 1 != 0 { (c >> 1) ^ 0xEDB8_8320 } else { c >> 1 }; }
    }
    !c
}

fn idat_chunk(payload: &[u8]) -> Vec<u8> {
    let mut v = (payload.len() as u32).to_be_bytes().to_vec();
    v.extend_from_slice(b"IDAT");
    v.extend_from_slice(payload);
    let mut t = b"IDAT".to_vec();
    t.extend_from_slice(payload);
    v.extend_from_slice(&crc32(&t).to_be_bytes());
    v
}

fn roundtrip(f: &[u8]) {
    let expanded = expand_zlib_chunks(f, 0).expect("expand must return Ok for every byte string");
    let mut out = Vec::new();
    recreated_zlib_chunks(&mut std::io::Cursor::new(expanded), &mut out).expect("recreate");
    assert_eq!(out, f);
}

/// D1: fewer than 8 bytes after the last IDAT chunk -> chunk header read past the end
#[test]
fn d1_short_tail_after_idat() {
    let mut f = idat_chunk(&[0x55]);
    f.extend_from_slice(&[1, 2, 3]);
    roundtrip(&f);
}

/// D1b: IDAT payload of 3..5 bytes -> `len() - 4` underflow
#[test]
fn d1b_tiny_idat_payload() {
    for n in 3..=5usize {
        let f = idat_chunk(&vec![0x78; n]);
        roundtrip(&f);
    }
}

/// D2: zero-length IDAT chunk inside a real PNG -> descriptor cannot represent it (0 is the terminator)
#[test]
fn d2_zero_length_idat_chunk() {
    let png = std::fs::read(concat!(env!("CARGO_MANIFEST_DIR"), "/samples/treegdi.png")).unwrap();
    // first IDAT chunk starts at 83 (length field), see idat_parse tests
    let first_len = u32::from_be_bytes([png[83], png[84], png[85], png[86]]) as usize;
    let split = 83 + first_len + 12;
    let mut f = png[..split].to_vec();
    f.extend_from_slice(&idat_chunk(&[]));
    f.extend_from_slice(&png[split..]);
    roundtrip(&f);
}
