// Replay searcher for C10 (appended to src/cabac_codec.rs under #[cfg(test)]; run only after a failed obligation / lost anchor)
#[cfg(test)]
mod verif_search {
    use super::*;
    use cabac::vp8::{VP8Reader, VP8Writer};
    use std::io::Cursor;

    #[derive(Clone, Copy, Debug)]
    enum Op { V(u16, u8), M(CodecMisprediction, bool), C(CodecCorrection, u32) }
    const CS: [CodecCorrection; 10] = [CodecCorrection::TokenCount, CodecCorrection::NonZeroPadding, CodecCorrection::BlockTypeCorrection,
        CodecCorrection::LenCorrection, CodecCorrection::DistOnlyCorrection, CodecCorrection::DistAfterLenCorrection,
        CodecCorrection::TreeCodeBitLengthCorrection, CodecCorrection::LDTypeCorrection, CodecCorrection::RepeatCountCorrection, CodecCorrection::LDBitLengthCorrection];
    const MS: [CodecMisprediction; 7] = [CodecMisprediction::EOFMisprediction, CodecMisprediction::LiteralPredictionWrong, CodecMisprediction::ReferencePredictionWrong,
        CodecMisprediction::IrregularLen258, CodecMisprediction::TreeCodeCountMisprediction, CodecMisprediction::LiteralCountMisprediction, CodecMisprediction::DistanceCountMisprediction];

    fn roundtrip(ops: &[Op]) -> Option<String> {
        let mut buffer = Vec::new();
        let mut enc = PredictionEncoderCabac::new(VP8Writer::new(&mut buffer).unwrap());
        for o in ops { match *o { Op::V(v, n) => enc.encode_value(v, n), Op::M(c, b) => enc.encode_misprediction(c, b), Op::C(c, v) => enc.encode_correction(c, v) } }
        enc.finish();
        let mut dec = PredictionDecoderCabac::new(VP8Reader::new(Cursor::new(&buffer)).unwrap());
        for (i, o) in ops.iter().enumerate() {
            match *o {
                Op::V(v, n) => { let r = dec.decode_value(n); if r != v { return Some(format!("op {} {:?} decoded as value {}", i, o, r)); } }
                Op::M(c, b) => { let r = dec.decode_misprediction(c); if r != b { return Some(format!("op {} {:?} decoded as {}", i, o, r)); } }
                Op::C(c, v) => { let r = dec.decode_correction(c); if r != v { return Some(format!("op {} {:?} decoded as {:#x}", i, o, r)); } }
            }
        }
        None
    }

    #[test]
    fn verif_search() {
        let mut seqs: Vec<Vec<Op>> = Vec::new();
        // every single operation at every bit length / context
        for c in CS { for bl in 0..=31u32 { for v in [if bl == 0 { 0 } else { 1u32 << (bl - 1) }, if bl == 0 { 0 } else { ((1u64 << bl) - 1) as u32 }, if bl < 3 { 0 } else { (1u32 << (bl - 1)) | 0x5 }] { if v < 0x8000_0000 { seqs.push(vec![Op::C(c, v)]); } } } }
        for m in MS { seqs.push(vec![Op::M(m, true)]); seqs.push(vec![Op::M(m, false)]); }
        for n in 1..=16u8 { seqs.push(vec![Op::V(0, n)]); seqs.push(vec![Op::V(((1u32 << n) - 1) as u16, n)]); seqs.push(vec![Op::V(1 << (n - 1), n)]); }
        // mixed pseudo-random sequences with long default runs and every bit length
        let mut s: u64 = 0x1234_5678;
        let mut rnd = move || { s = s.wrapping_mul(6364136223846793005).wrapping_add(1442695040888963407); (s >> 33) as u32 };
        for len in [2usize, 3, 5, 17, 64, 300, 2000] {
            for _ in 0..12 {
                let mut q = Vec::new();
                for _ in 0..len {
                    match rnd() % 6 {
                        0 => { let n = (rnd() % 16 + 1) as u8; q.push(Op::V((rnd() & ((1u32 << n) - 1)) as u16, n)); }
                        1 => q.push(Op::M(MS[(rnd() % 7) as usize], rnd() % 5 == 0)),
                        2 | 3 => q.push(Op::C(CS[(rnd() % 10) as usize], 0)),
                        _ => { let bl = rnd() % 32; let v = if bl == 0 { 0 } else { ((rnd() as u64 | (1u64 << 31)) >> (32 - bl)) as u32 }; q.push(Op::C(CS[(rnd() % 10) as usize], v & 0x7fff_ffff)); }
                    }
                }
                seqs.push(q);
            }
        }
        println!("SEARCH property=c10 inputs={}", seqs.len());
        for q in seqs.iter() {
            let qq = q.clone();
            match std::panic::catch_unwind(move || roundtrip(&qq)) {
                Ok(None) => {}
                Ok(Some(msg)) => { println!("FAILING-INPUT property=c10 what={:?} ops={:?}", msg, &q[..q.len().min(40)]); panic!("c10: {}", msg); }
                Err(_) => { println!("FAILING-INPUT property=c10 what=\"panic\" ops={:?}", &q[..q.len().min(40)]); panic!("c10: panic"); }
            }
        }
        println!("SEARCH-DONE property=c10 no failing input in {} sequences", seqs.len());
    }
}
