// Golden-corpus replay for C04 (BOUNDED stand-in for the part of the format that lives in unverified prediction logic):
// correction data and containers recorded from the REFERENCE build (/repo at the commit named in golden/golden.json) are
// given to the CURRENT build's recompress_deflate_stream / recreated_zlib_chunks; the result must be the original bytes.
// VERIF_GOLDEN=record prints the records (maintenance, on the reference tree only); otherwise it replays VERIF_GOLDEN_FILE.
use preflate_rs::{decompress_deflate_stream, expand_zlib_chunks, recompress_deflate_stream, recreated_zlib_chunks};
use std::path::Path;

fn hex(b: &[u8]) -> String { b.iter().map(|x| format!("{:02x}", x)).collect() }
fn unhex(s: &str) -> Vec<u8> { (0..s.len() / 2).map(|i| u8::from_str_radix(&s[2 * i..2 * i + 2], 16).unwrap()).collect() }
fn sample(name: &str) -> Vec<u8> { std::fs::read(Path::new(env!("CARGO_MANIFEST_DIR")).join("samples").join(name)).unwrap() }

const STREAMS: [&str; 44] = ["compressed_zlib_level1.deflate", "compressed_zlib_level4.deflate", "compressed_zlib_level6.deflate", "compressed_zlib_level9.deflate",
    "compressed_flate2_level1.deflate", "compressed_flate2_level6.deflate", "compressed_flate2_level9.deflate", "compressed_flate2_level1_longmatch.deflate",
    "compressed_libdeflate_level1.deflate", "compressed_libdeflate_level6.deflate", "compressed_libdeflate_level9.deflate",
    "compressed_minizoxide_level1.deflate", "compressed_zlib_level0.deflate", "compressed_zlib_level3.deflate",
    // every other compressor level of the sample set, the zlib-ng samples (other hash algorithms) and the real-world dumps
    "compressed_zlib_level2.deflate", "compressed_zlib_level5.deflate", "compressed_zlib_level7.deflate", "compressed_zlib_level8.deflate",
    "compressed_flate2_level2.deflate", "compressed_flate2_level3.deflate", "compressed_flate2_level4.deflate", "compressed_flate2_level5.deflate",
    "compressed_flate2_level7.deflate", "compressed_flate2_level8.deflate",
    "compressed_libdeflate_level2.deflate", "compressed_libdeflate_level3.deflate", "compressed_libdeflate_level4.deflate", "compressed_libdeflate_level5.deflate",
    "compressed_libdeflate_level7.deflate", "compressed_libdeflate_level8.deflate",
    "compressed_zlibng_level1.deflate", "compressed_zlibng_level2.deflate", "compressed_zlibng_level3.deflate", "compressed_zlibng_level4.deflate", "zlibng.deflate",
    "dump214.deflate", "dump5265.deflate", "dump571.deflate", "savegame.deflate", "starcontrol.deflate", "tree.paintnet.deflate", "treepng.deflate",
    "compressed_flate2_level0.deflate", "compressed_libdeflate_level0.deflate"];
const FILES: [&str; 3] = ["samplezip.zip", "treegdi.png", "sample1.bin.gz"];

#[test]
fn verif_search() {
    if std::env::var("VERIF_GOLDEN").map(|v| v == "record").unwrap_or(false) {
        for s in STREAMS {
            let d = sample(s);
            match decompress_deflate_stream(&d, true, 0) {
                Ok(r) => println!("GOLDEN-STREAM {} {} {}", s, r.compressed_size, hex(&r.prediction_corrections)),
                Err(e) => println!("GOLDEN-SKIP {} {}", s, e),
            }
        }
        for f in FILES {
            let p = Path::new(env!("CARGO_MANIFEST_DIR")).join("samples").join(f);
            if !p.exists() { println!("GOLDEN-SKIP {} missing", f); continue; }
            let d = std::fs::read(p).unwrap();
            let c = expand_zlib_chunks(&d, 0).unwrap();
            println!("GOLDEN-FILE {} {}", f, hex(&c));
        }
        return;
    }
    let gf = std::env::var("VERIF_GOLDEN_FILE").expect("VERIF_GOLDEN_FILE");
    let text = std::fs::read_to_string(gf).unwrap();
    let mut n = 0;
    for line in text.lines() {
        let parts: Vec<&str> = line.split(' ').collect();
        if parts[0] == "GOLDEN-STREAM" {
            let d = sample(parts[1]);
            let size: usize = parts[2].parse().unwrap();
            let cor = unhex(parts[3]);
            // plaintext from the current build's own parse (its correctness is C03/C07)
            let plain = match decompress_deflate_stream(&d, false, 0) { Ok(r) => r.plain_text, Err(e) => { println!("FAILING-INPUT property=c04 what=\"reference-accepted sample {} is rejected by the current build: {}\"", parts[1], e); panic!("c04"); } };
            let r = std::panic::catch_unwind(|| recompress_deflate_stream(&plain, &cor));
            match r {
                Ok(Ok(back)) if back[..] == d[..size] => {}
                Ok(Ok(_)) => { println!("FAILING-INPUT property=c04 what=\"correction data recorded from the reference build for samples/{} is reconstructed differently by the current build\"", parts[1]); panic!("c04"); }
                Ok(Err(e)) => { println!("FAILING-INPUT property=c04 what=\"correction data recorded from the reference build for samples/{} is rejected by the current build: {}\"", parts[1], e); panic!("c04"); }
                Err(_) => { println!("FAILING-INPUT property=c04 what=\"recompress_deflate_stream panicked on the recorded corrections of samples/{}\"", parts[1]); panic!("c04"); }
            }
            n += 1;
        } else if parts[0] == "GOLDEN-FILE" {
            let d = sample(parts[1]);
            let c = unhex(parts[2]);
            let mut out = Vec::new();
            let r = recreated_zlib_chunks(&mut std::io::Cursor::new(&c), &mut out);
            if r.is_err() || out != d { println!("FAILING-INPUT property=c04 what=\"container recorded from the reference build for samples/{} is not reconstructed by the current build\"", parts[1]); panic!("c04"); }
            n += 1;
        }
    }
    println!("SEARCH-DONE property=c04 no failing input in {} recorded items", n);
}
