// Replay searcher for C01 / C11 / C13 (NOT the deciding check: it is run only after a contract obligation failed or an
// annotation anchor was lost, to turn the failed obligation into a concrete failing input on the real code).
// Integration test over the public API; select with VERIF_SEARCH=c01|c06|c11|c12|c13.
use preflate_rs::{compress_zstd, decompress_zstd, expand_zlib_chunks, recreated_zlib_chunks, WrapperCompressZip, WrapperDecompressZip};
use std::io::{Read, Write};

fn crc32(data: &[u8]) -> u32 {
    let mut c: u32 = 0xFFFF_FFFF;
    for &b in data { c ^= b as u32; for _ in 0..8 { c = if c & 1 != 0 { (c >> 1) ^ 0xEDB8_8320 } else { c >> 1 }; } }
    !c
}
fn adler32(data: &[u8]) -> u32 {
    let (mut a, mut b) = (1u32, 0u32);
    for &x in data { a = (a + x as u32) % 65521; b = (b + a) % 65521; }
    (b << 16) | a
}
fn hex(b: &[u8]) -> String { b.iter().map(|x| format!("{:02x}", x)).collect() }

struct Lcg(u64);
impl Lcg { fn next(&mut self) -> u32 { self.0 = self.0.wrapping_mul(6364136223846793005).wrapping_add(1442695040888963407); (self.0 >> 33) as u32 } }

/// raw deflate stream made of stored blocks (accepted by every inflater and by the library)
fn stored_stream(data: &[u8], block: usize) -> Vec<u8> {
    let mut out = Vec::new();
    let chunks: Vec<&[u8]> = if data.is_empty() { vec![&data[..]] } else { data.chunks(block).collect() };
    for (i, c) in chunks.iter().enumerate() {
        out.push(if i + 1 == chunks.len() { 1 } else { 0 });
        out.extend_from_slice(&(c.len() as u16).to_le_bytes());
        out.extend_from_slice(&(!(c.len() as u16)).to_le_bytes());
        out.extend_from_slice(c);
    }
    out
}
fn plain(n: usize, seed: u64) -> Vec<u8> { let mut r = Lcg(seed); (0..n).map(|i| if i % 7 < 4 { (i % 13) as u8 } else { r.next() as u8 }).collect() }
fn zlib_wrap(hdr: [u8; 2], raw: &[u8], p: &[u8]) -> Vec<u8> { let mut v = hdr.to_vec(); v.extend_from_slice(raw); v.extend_from_slice(&adler32(p).to_be_bytes()); v }
fn gzip_wrap(flags: u8, raw: &[u8], p: &[u8]) -> Vec<u8> {
    let mut v = vec![0x1f, 0x8b, 8, flags, 0, 0, 0, 0, 0, 3];
    if flags & 4 != 0 { v.extend_from_slice(&[3, 0, 9, 9, 9]); }
    if flags & 8 != 0 { v.extend_from_slice(b"name\0"); }
    if flags & 16 != 0 { v.extend_from_slice(b"c\0"); }
    if flags & 2 != 0 { v.extend_from_slice(&[1, 2]); }
    v.extend_from_slice(raw); v.extend_from_slice(&crc32(p).to_le_bytes()); v.extend_from_slice(&(p.len() as u32).to_le_bytes()); v
}
fn zip_wrap(name: &[u8], extra: &[u8], raw: &[u8]) -> Vec<u8> {
    let mut v = vec![0x50, 0x4b, 3, 4, 20, 0, 0, 0, 8, 0, 0, 0, 0, 0, 0, 0, 0, 0];
    v.extend_from_slice(&(raw.len() as u32).to_le_bytes()); v.extend_from_slice(&0u32.to_le_bytes());
    v.extend_from_slice(&(name.len() as u16).to_le_bytes()); v.extend_from_slice(&(extra.len() as u16).to_le_bytes());
    v.extend_from_slice(name); v.extend_from_slice(extra); v.extend_from_slice(raw); v
}
fn idat_chunk(payload: &[u8]) -> Vec<u8> {
    let mut v = (payload.len() as u32).to_be_bytes().to_vec(); v.extend_from_slice(b"IDAT"); v.extend_from_slice(payload);
    let mut t = b"IDAT".to_vec(); t.extend_from_slice(payload); v.extend_from_slice(&crc32(&t).to_be_bytes()); v
}
fn png_wrap(z: &[u8], splits: &[usize]) -> Vec<u8> {
    let mut v = vec![0x89, b'P', b'N', b'G', 13, 10, 26, 10, 0, 0, 0, 0];
    let mut pos = 0;
    for &s in splits { let e = (pos + s).min(z.len()); v.extend_from_slice(&idat_chunk(&z[pos..e])); pos = e; if pos == z.len() { break; } }
    if pos < z.len() { v.extend_from_slice(&idat_chunk(&z[pos..])); }
    v.extend_from_slice(&[0, 0, 0, 0, b'I', b'E', b'N', b'D', 0xae, 0x42, 0x60, 0x82]); v
}

fn corpus() -> Vec<Vec<u8>> {
    let mut c: Vec<Vec<u8>> = Vec::new();
    // tiny inputs exhaustively (lengths 0..=2) and signature look-alikes
    c.push(vec![]);
    for a in 0..=255u8 { c.push(vec![a]); }
    for a in [0x78u8, 0x50, 0x1f, 0x49, 0x00, 0xff] { for b in 0..=255u8 { c.push(vec![a, b]); } }
    for s in [&b"PK\x03\x04"[..], b"\x1f\x8b\x08\x1f", b"x\x9c", b"IDAT", b"\0\0\0\x01IDATx", b"\0\0\0\x01IDAT\x78\x01\x02\x03\x04\x05\x06"] {
        for n in 0..=s.len() { c.push(s[..n].to_vec()); }
        let mut v = vec![1, 2, 3, 4, 5]; v.extend_from_slice(s); v.extend_from_slice(&[9; 20]); c.push(v);
    }
    for (n, blk) in [(1100usize, 65535usize), (1500, 400), (3000, 1024), (1025, 1)] {
        let p = plain(n, n as u64);
        let raw = stored_stream(&p, blk.max(1));
        for hdr in [[0x78u8, 0x01], [0x78, 0x5e], [0x78, 0x9c], [0x78, 0xda]] {
            let z = zlib_wrap(hdr, &raw, &p);
            let mut f = vec![7u8; 3]; f.extend_from_slice(&z); f.extend_from_slice(b"tail"); c.push(f);
            // PNG with many different chunkings, including one- and two-byte chunks at the start and the end
            for splits in [vec![z.len()], vec![1, z.len()], vec![2, z.len()], vec![1, 1, z.len()], vec![3, 5, 700, z.len()],
                           vec![z.len() - 1, 1], vec![z.len() - 4, 4], vec![z.len() - 5, 1, 4], vec![600; 8], vec![0, z.len()]] {
                let mut f = png_wrap(&z, &splits); c.push(f.clone());
                f.truncate(f.len() - 13); c.push(f.clone());
                f.truncate(f.len().saturating_sub(5)); c.push(f);
            }
            // stray bytes between the last block and the Adler-32
            let mut z2 = hdr.to_vec(); z2.extend_from_slice(&raw); z2.push(0xAA); z2.extend_from_slice(&adler32(&p).to_be_bytes());
            c.push(png_wrap(&z2, &[z2.len()]));
        }
        for flags in [0u8, 2, 4, 8, 16, 30, 12] { let mut f = b"ab".to_vec(); f.extend_from_slice(&gzip_wrap(flags, &raw, &p)); f.push(1); c.push(f); }
        for (name, extra) in [(&b""[..], &b""[..]), (b"a.txt", b""), (b"n", b"\x01\x02\x03")] { let mut f = zip_wrap(name, extra, &raw); f.extend_from_slice(b"PK\x01\x02"); c.push(f); }
        // zip header whose extra field runs past the end
        let mut bad = zip_wrap(b"", b"", &raw); bad[28] = 0xff; bad.truncate(40); c.push(bad);
        // a zlib stream directly followed by an IDAT chunk whose length field overlaps the stream's tail
        let pay = zlib_wrap([0x78, 1], &stored_stream(&plain(1200, 5), 65535), &plain(1200, 5));
        let mut outer = plain(1300, 9); let n2 = outer.len(); outer[n2 - 4..].copy_from_slice(&(pay.len() as u32).to_be_bytes());
        let mut f = vec![0x78, 0x01]; f.extend_from_slice(&stored_stream(&outer, 65535)); f.extend_from_slice(&idat_chunk(&pay)[4..]); c.push(f);
    }
    // several embedded streams in one file, back to back or with a few bytes between them (the scanner's cursor
    // bookkeeping after a hit: prev_index, the 4-byte IDAT look-back right after an expanded stream)
    {
        let mut r = Lcg(7);
        let pa = plain(1200, 21); let pb = plain(1400, 22); let pc = plain(1100, 23);
        let ra = stored_stream(&pa, 65535); let rb = stored_stream(&pb, 500); let rc = stored_stream(&pc, 1024);
        let za = zlib_wrap([0x78, 0x9c], &ra, &pa);
        let gz = gzip_wrap(8, &rb, &pb);
        let zp = zip_wrap(b"a.txt", b"", &rc);
        let zc = zlib_wrap([0x78, 0xda], &rc, &pc);
        let mut idat_run: Vec<u8> = vec![]; { let mut pos = 0; while pos < zc.len() { let e = (pos + 600).min(zc.len()); idat_run.extend_from_slice(&idat_chunk(&zc[pos..e])); pos = e; } }
        let parts: Vec<Vec<u8>> = vec![za, gz, zp, idat_run];
        for a in 0..parts.len() { for b in 0..parts.len() { for gap in [0usize, 1, 3, 4, 5] {
            let mut f = vec![1u8, 2, 3, 4, 5]; f.extend_from_slice(&parts[a]);
            for _ in 0..gap { f.push((r.next() % 200) as u8 + 30); }
            f.extend_from_slice(&parts[b]); f.extend_from_slice(b"end");
            c.push(f);
        } } }
        let mut f = vec![]; for p3 in &parts { f.extend_from_slice(p3); } c.push(f);
    }
    // mutations: bit flips, truncations and splices of the structured files
    let base: Vec<Vec<u8>> = c.iter().filter(|f| f.len() > 64).cloned().collect();
    let mut r = Lcg(42);
    for f in base.iter().take(40) {
        for _ in 0..6 {
            let mut g = f.clone();
            match r.next() % 4 {
                0 => { let i = r.next() as usize % g.len(); g[i] ^= 1 << (r.next() % 8); }
                1 => { let n = r.next() as usize % g.len(); g.truncate(n); }
                2 => { let i = r.next() as usize % g.len(); g.insert(i, r.next() as u8); }
                _ => { let i = r.next() as usize % g.len(); g.remove(i); }
            }
            c.push(g);
        }
    }
    c
}

fn contains(h: &[u8], n: &[u8]) -> bool { n.is_empty() || h.windows(n.len()).any(|w| w == n) }
/// the file embeds an intact stored-block stream of plaintext p behind an intact wrapper (only such files are checked)
fn stored_payload_present(f: &[u8], p: &[u8]) -> bool {
    for blk in [65535usize, 400, 500, 1024, 1] {
        let raw = stored_stream(p, blk);
        if !contains(f, &raw) { continue; }
        for hdr in [[0x78u8, 0x01], [0x78, 0x5e], [0x78, 0x9c], [0x78, 0xda]] { let mut z = hdr.to_vec(); z.extend_from_slice(&raw); if contains(f, &z) && !contains(f, b"IDAT") { return true; } }
        for flags in [0u8, 2, 4, 8, 16, 30, 12] { let g = gzip_wrap(flags, &raw, p); if contains(f, &g[..g.len() - 8]) { return true; } }
        for (name, extra) in [(&b""[..], &b""[..]), (b"a.txt", b""), (b"n", b"\x01\x02\x03")] { let z = zip_wrap(name, extra, &raw); if contains(f, &z) { return true; } }
    }
    false
}

fn report(prop: &str, what: &str, input: &[u8]) -> ! {
    println!("FAILING-INPUT property={} what={:?} len={} hex={}", prop, what, input.len(), hex(&input[..input.len().min(4096)]));
    panic!("{}: {}", prop, what);
}

struct Frag<'a> { d: &'a [u8], pos: usize, step: usize, fail_at: Option<usize> }
impl<'a> Read for Frag<'a> {
    fn read(&mut self, buf: &mut [u8]) -> std::io::Result<usize> {
        if let Some(k) = self.fail_at { if self.pos >= k { return Err(std::io::Error::new(std::io::ErrorKind::Other, "injected")); } }
        let mut n = buf.len().min(self.step).min(self.d.len() - self.pos);
        if let Some(k) = self.fail_at { n = n.min(k - self.pos); if n == 0 && self.pos < self.d.len() && !buf.is_empty() { return Err(std::io::Error::new(std::io::ErrorKind::Other, "injected")); } }
        buf[..n].copy_from_slice(&self.d[self.pos..self.pos + n]); self.pos += n; Ok(n)
    }
}
struct Sink { out: Vec<u8>, step: usize, fail_at: Option<usize> }
impl Write for Sink {
    fn write(&mut self, buf: &[u8]) -> std::io::Result<usize> {
        if let Some(k) = self.fail_at { if self.out.len() >= k { return Err(std::io::Error::new(std::io::ErrorKind::Other, "injected")); } }
        let mut n = buf.len().min(self.step);
        if let Some(k) = self.fail_at { n = n.min(k - self.out.len()); }
        self.out.extend_from_slice(&buf[..n]); Ok(n)
    }
    fn flush(&mut self) -> std::io::Result<()> { Ok(()) }
}

#[test]
fn verif_search() {
    let which = std::env::var("VERIF_SEARCH").unwrap_or_else(|_| "c01".into());
    let corpus = corpus();
    println!("SEARCH property={} inputs={}", which, corpus.len());
    if which == "c11" {
        // highly compressible inputs: the zstd frame is thousands of times smaller than what it expands to
        let mut big: Vec<Vec<u8>> = vec![vec![0u8; 300_000], (0..400_000usize).map(|i| ((i / 7) % 251) as u8).collect()];
        let p = plain(1500, 77); let raw = stored_stream(&vec![b'a'; 60_000], 65535);
        let mut z = zlib_wrap([0x78, 0x9c], &raw, &vec![b'a'; 60_000]); z.extend_from_slice(&p); big.push(z);
        for f in big.iter() {
            let expanded = match expand_zlib_chunks(f, 0) { Ok(e) => e, Err(e) => report(&which, &format!("expand_zlib_chunks Err {}", e), f) };
            let z = match compress_zstd(f, 0) { Ok(z) => z, Err(e) => report(&which, &format!("compress_zstd Err {}", e), f) };
            let size = expanded.len();
            for cap in [size, size + 1, 128 << 20] {
                match decompress_zstd(&z, cap) { Ok(o) => { if &o != f { report(&which, &format!("wrong data at capacity {}", cap), f); } }, Err(e) => report(&which, &format!("Err with sufficient capacity {} (expanded size {}, frame {} bytes): {}", cap, size, z.len(), e), f) }
            }
            if size > 0 { if decompress_zstd(&z, size - 1).is_ok() { report(&which, &format!("Ok with capacity {} < expanded size {}", size - 1, size), f); } }
        }
    }
    if which == "c06" {
        // IDAT runs cut into several chunks (so that the plain zlib scan cannot see the stream) or behind a zlib header
        // that is not in the signature table, followed by: IEND, nothing at all, a few stray bytes, a truncated chunk
        for (n, blk) in [(1100usize, 65535usize), (3000, 1024)] {
            let p = plain(n, n as u64 + 3);
            let raw = stored_stream(&p, blk);
            for hdr in [[0x78u8, 0x9c], [0x68, 0x81], [0x58, 0x85]] {
                let z = zlib_wrap(hdr, &raw, &p);
                for splits in [vec![z.len()], vec![700; 8], vec![1, 1, z.len()], vec![z.len() - 4, 4]] {
                    if splits.len() == 1 && hdr[0] == 0x78 { continue; }
                    let mut run: Vec<u8> = vec![];
                    let mut pos = 0;
                    for &sp in &splits { let e = (pos + sp).min(z.len()); run.extend_from_slice(&idat_chunk(&z[pos..e])); pos = e; if pos == z.len() { break; } }
                    if pos < z.len() { run.extend_from_slice(&idat_chunk(&z[pos..])); }
                    for tail in [&[0u8, 0, 0, 0, b'I', b'E', b'N', b'D', 0xae, 0x42, 0x60, 0x82][..], &[][..], &[1u8, 2, 3][..], &[0u8, 0, 0, 9, b'I', b'D', b'A', b'T', 1, 2][..], &[0u8, 0, 0, 0, b'I', b'D', b'A', b'T', 0, 0, 0, 0][..]] {
                        for head in [&[0x89u8, b'P', b'N', b'G', 13, 10, 26, 10, 0, 0, 0, 0][..], &[9u8, 9, 9, 9][..], &[][..], &[7u8][..]] {
                            let mut f = head.to_vec(); f.extend_from_slice(&run); f.extend_from_slice(tail);
                            let expanded = match std::panic::catch_unwind(|| expand_zlib_chunks(&f, 0)) { Ok(Ok(e)) => e, _ => report(&which, "expand_zlib_chunks failed on a PNG-like file", &f) };
                            if !contains(&expanded, &p) { report(&which, &format!("IDAT run ({} chunks, zlib header {:02x}{:02x}, {} bytes after the run) was copied, not expanded", splits.len(), hdr[0], hdr[1], tail.len()), &f); }
                        }
                    }
                }
            }
        }
    }
    for f in corpus.iter() {
        let expanded = match std::panic::catch_unwind(|| expand_zlib_chunks(f, 0)) {
            Ok(Ok(e)) => e,
            Ok(Err(e)) => report(&which, &format!("expand_zlib_chunks returned Err: {}", e), f),
            Err(_) => report(&which, "expand_zlib_chunks panicked", f),
        };
        match which.as_str() {
            "c01" => {
                let mut out = Vec::new();
                let r = std::panic::catch_unwind(move || { let mut o = Vec::new(); let r = recreated_zlib_chunks(&mut std::io::Cursor::new(expanded), &mut o); (r.is_ok(), o) });
                match r { Ok((true, o)) => out = o, Ok((false, _)) => report(&which, "recreated_zlib_chunks returned Err on expand's output", f), Err(_) => report(&which, "recreated_zlib_chunks panicked", f) }
                if &out != f { report(&which, "round trip differs", f); }
            }
            "c06" => {
                // detection: the expanded form must carry the plaintext of every embedded stream we planted, verbatim
                for (n, sd) in [(1100usize, 1100u64), (1500, 1500), (3000, 3000), (1025, 1025), (1200, 21), (1400, 22)] {
                    let p = plain(n, sd);
                    let planted = f.windows(2).any(|w| w == [0x78, 0x01] || w == [0x78, 0x5e] || w == [0x78, 0x9c] || w == [0x78, 0xda] || w == [0x1f, 0x8b] || w == [0x50, 0x4b])
                        && stored_payload_present(f, &p);
                    if planted && !contains(&expanded, &p) { report(&which, &format!("embedded stream with {} bytes of plaintext was copied, not expanded", n), f); }
                }
            }
            "c11" => {
                if f.len() > 6000 { continue; }
                let z = match compress_zstd(f, 0) { Ok(z) => z, Err(e) => report(&which, &format!("compress_zstd Err {}", e), f) };
                let size = expanded.len();
                let mut caps: Vec<usize> = vec![0, 1, size.saturating_sub(1), size, size + 1, size + 100];
                if size <= 3000 { caps.extend(0..=size + 1); } else { let mut r = Lcg(size as u64); for _ in 0..200 { caps.push(r.next() as usize % (size + 2)); } }
                for cap in caps {
                    let zz = z.clone();
                    match std::panic::catch_unwind(move || decompress_zstd(&zz, cap)) {
                        Err(_) => report(&which, &format!("decompress_zstd panicked at capacity {}", cap), f),
                        Ok(Ok(o)) => { if cap < size { report(&which, &format!("Ok with capacity {} < expanded size {}", cap, size), f); } if &o != f { report(&which, &format!("wrong data at capacity {}", cap), f); } }
                        Ok(Err(_)) => { if cap >= size { report(&which, &format!("Err with sufficient capacity {} (size {})", cap, size), f); } }
                    }
                }
                if decompress_zstd(f, 1 << 20).is_ok() && !f.is_empty() && f.len() < 4 { report(&which, "non-frame accepted", f); }
            }
            "c13" => {
                if f.len() > 8000 { continue; }
                for step in [1usize, 2, 3, 7, 64, 4096] {
                    let mut src = Frag { d: &expanded, pos: 0, step, fail_at: None };
                    let mut dst = Sink { out: Vec::new(), step: (step * 3 + 1) % 11 + 1, fail_at: None };
                    match recreated_zlib_chunks(&mut src, &mut dst) { Ok(()) => {}, Err(e) => report(&which, &format!("Err under fragmentation step {}: {}", step, e), f) }
                    if &dst.out != f { report(&which, &format!("output differs under read fragmentation {}", step), f); }
                }
                let mut r = Lcg(f.len() as u64 + 1);
                for _ in 0..24 {
                    let k = r.next() as usize % (expanded.len() + 1);
                    let mut src = Frag { d: &expanded, pos: 0, step: 5, fail_at: Some(k) };
                    let mut dst = Sink { out: Vec::new(), step: 9, fail_at: None };
                    let res = std::panic::catch_unwind(std::panic::AssertUnwindSafe(|| recreated_zlib_chunks(&mut src, &mut dst).is_ok()));
                    match res { Err(_) => report(&which, &format!("panic on source error at {}", k), f), Ok(ok) => { if ok && k < expanded.len() { report(&which, &format!("Ok despite source error at {}", k), f); } } }
                    if !f.starts_with(&dst.out) { report(&which, &format!("bytes written before a source error at {} are not a prefix", k), f); }
                    let kw = r.next() as usize % (f.len() + 1);
                    let mut src = Frag { d: &expanded, pos: 0, step: 4096, fail_at: None };
                    let mut dst = Sink { out: Vec::new(), step: 9, fail_at: Some(kw) };
                    let res = std::panic::catch_unwind(std::panic::AssertUnwindSafe(|| recreated_zlib_chunks(&mut src, &mut dst).is_ok()));
                    match res { Err(_) => report(&which, &format!("panic on sink error at {}", kw), f), Ok(ok) => { if ok && kw < f.len() { report(&which, &format!("Ok despite sink error at {}", kw), f); } } }
                    if !f.starts_with(&dst.out) { report(&which, &format!("bytes written before a sink error at {} are not a prefix", kw), f); }
                }
            }
            "c12" => {
                if f.len() > 20000 { continue; }
                const G: usize = 16;
                let guarded = |cap: usize| vec![0xA5u8; cap + 2 * G];
                let guards_ok = |b: &[u8], cap: usize| b[..G].iter().all(|&x| x == 0xA5) && b[G + cap..].iter().all(|&x| x == 0xA5);
                let mut comp = guarded(f.len() + 10000);
                let ccap = f.len() + 10000;
                let mut csize = u64::MAX;
                let rc = unsafe { WrapperCompressZip(f.as_ptr(), f.len() as u64, comp.as_mut_ptr().add(G), ccap as u64, &mut csize) };
                if rc != 0 { report(&which, &format!("WrapperCompressZip returned {} with an ample buffer", rc), f); }
                if csize as usize > ccap || !guards_ok(&comp, ccap) { report(&which, "WrapperCompressZip: result_size beyond the buffer or guard bytes overwritten", f); }
                let z = comp[G..G + csize as usize].to_vec();
                for cap in [0usize, 1, z.len() / 2, z.len().saturating_sub(1)] {
                    if cap >= z.len() { continue; }
                    let mut b = guarded(cap); let mut rs = u64::MAX;
                    let rc = unsafe { WrapperCompressZip(f.as_ptr(), f.len() as u64, b.as_mut_ptr().add(G), cap as u64, &mut rs) };
                    if !guards_ok(&b, cap) { report(&which, &format!("WrapperCompressZip wrote outside a {}-byte buffer", cap), f); }
                    if rc == 0 && rs as usize > cap { report(&which, &format!("WrapperCompressZip returned 0 with result_size {} > capacity {}", rs, cap), f); }
                    if rc >= 0 { report(&which, &format!("WrapperCompressZip returned {} for an undersized buffer ({} < {})", rc, cap, z.len()), f); }
                }
                for cap in [0usize, 1, f.len() / 2, f.len().saturating_sub(1), f.len(), f.len() + 7] {
                    let mut b = guarded(cap); let mut rs = u64::MAX;
                    let rc = unsafe { WrapperDecompressZip(z.as_ptr(), z.len() as u64, b.as_mut_ptr().add(G), cap as u64, &mut rs) };
                    if !guards_ok(&b, cap) { report(&which, &format!("WrapperDecompressZip wrote outside a {}-byte buffer", cap), f); }
                    if cap < f.len() {
                        if rc >= 0 { report(&which, &format!("WrapperDecompressZip returned {} for an undersized buffer ({} < {}), result_size {}", rc, cap, f.len(), rs), f); }
                    } else {
                        if rc != 0 { report(&which, &format!("WrapperDecompressZip returned {} with capacity {} >= {}", rc, cap, f.len()), f); }
                        if rs as usize != f.len() || &b[G..G + f.len()] != &f[..] { report(&which, &format!("wrapper round trip differs at capacity {}", cap), f); }
                    }
                }
            }
            _ => panic!("unknown VERIF_SEARCH"),
        }
    }
    println!("SEARCH-DONE property={} no failing input in {} inputs", which, corpus.len());
}
