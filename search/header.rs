// Replay searcher for C08 (header part; appended to src/preflate_parameter_estimator.rs under #[cfg(test)])
#[cfg(test)]
mod verif_search {
    use super::*;
    use crate::cabac_codec::{PredictionDecoderCabac, PredictionEncoderCabac};
    use cabac::vp8::{VP8Reader, VP8Writer};
    use std::io::Cursor;

    fn roundtrip(p: &PreflateParameters) -> Option<String> {
        let mut buffer = Vec::new();
        let mut enc = PredictionEncoderCabac::new(VP8Writer::new(&mut buffer).unwrap());
        p.write(&mut enc);
        enc.encode_value(0x2A5, 10);
        enc.finish();
        let mut dec = PredictionDecoderCabac::new(VP8Reader::new(Cursor::new(&buffer)).unwrap());
        match PreflateParameters::read(&mut dec) {
            Err(e) => Some(format!("read returned Err: {}", e)),
            Ok(q) => if &q != p { Some(format!("read back {:?}", q)) } else if dec.decode_value(10) != 0x2A5 { Some("header length mismatch (following value corrupted)".into()) } else { None },
        }
    }

    #[test]
    fn verif_search() {
        let hashes = [HashAlgorithm::None, HashAlgorithm::Zlib { hash_mask: 0x7fff, hash_shift: 5 }, HashAlgorithm::Zlib { hash_mask: 0xffff, hash_shift: 255 },
            HashAlgorithm::MiniZFast, HashAlgorithm::Libdeflate4, HashAlgorithm::Libdeflate4Fast, HashAlgorithm::ZlibNG, HashAlgorithm::RandomVector, HashAlgorithm::Crc32cHash];
        let policies = [DictionaryAddPolicy::AddAll, DictionaryAddPolicy::AddFirst(0), DictionaryAddPolicy::AddFirst(255), DictionaryAddPolicy::AddFirstAndLast(1),
            DictionaryAddPolicy::AddFirstAndLast(255), DictionaryAddPolicy::AddFirstExcept4kBoundary, DictionaryAddPolicy::AddFirstWith32KBoundary];
        let matchings = [MatchingType::Greedy, MatchingType::Lazy { good_length: 0, max_lazy: 1 }, MatchingType::Lazy { good_length: 65535, max_lazy: 65535 }, MatchingType::Lazy { good_length: 32, max_lazy: 258 }];
        let edge32 = [0u32, 1, 2, 255, 256, 257, 258, 4095, 4096, 4097, 32767, 32768, 65535];
        let edge16 = [0u16, 1, 255, 256, 4095, 4096, 16386, 32767, 65535];
        let mut n = 0;
        for (hi, h) in hashes.iter().enumerate() { for (pi, a) in policies.iter().enumerate() { for (mi, m) in matchings.iter().enumerate() {
            for k in 0..edge32.len() {
                let p = PreflateParameters {
                    huff_strategy: [PreflateHuffStrategy::Dynamic, PreflateHuffStrategy::Mixed, PreflateHuffStrategy::Static][(hi + pi + k) % 3],
                    predictor: TokenPredictorParameters {
                        matches_to_start_detected: (k + mi) % 2 == 0, very_far_matches_detected: (k + pi) % 3 == 0,
                        window_bits: [0u32, 9, 15, 255][(k + hi) % 4],
                        strategy: [PreflateStrategy::Default, PreflateStrategy::RleOnly, PreflateStrategy::HuffOnly, PreflateStrategy::Store][(k + mi + hi) % 4],
                        nice_length: edge32[k], add_policy: *a, max_token_count: edge16[(k + hi) % edge16.len()], zlib_compatible: (k + hi) % 2 == 1,
                        max_dist_3_matches: edge16[(k + pi) % edge16.len()], matching_type: *m,
                        max_chain: edge32[(k + 3 * mi + pi) % edge32.len()], min_len: edge32[(k + 5 * hi) % edge32.len()], hash_algorithm: *h,
                    },
                };
                n += 1;
                let pp = p;
                match std::panic::catch_unwind(move || roundtrip(&pp)) {
                    Ok(None) => {}
                    Ok(Some(msg)) => { println!("FAILING-INPUT property=c08 what={:?} params={:?}", msg, p); panic!("c08: {}", msg); }
                    Err(_) => { println!("FAILING-INPUT property=c08 what=\"panic\" params={:?}", p); panic!("c08: panic"); }
                }
            }
        } } }
        println!("SEARCH-DONE property=c08 no failing input in {} parameter vectors", n);
    }
}
