// Replay searcher for C07 / C03 (appended to src/process.rs under #[cfg(test)]): generates well-formed DEFLATE streams
// from its own independent encoder (stored / fixed / dynamic blocks, random padding bits, both codings of length 258,
// random run-length choices in the dynamic header), then runs the property statement on the real code:
//   C07: parse_deflate -> DeflateWriter::encode_block per block -> flush_with_padding == the stream, whole stream consumed
//   C03: plain_text == the plaintext the generator encoded, compressed_size == stream length
#[cfg(test)]
mod verif_search {
    use super::*;

    struct Bits { out: Vec<u8>, acc: u32, n: u32 }
    impl Bits {
        fn new() -> Self { Bits { out: vec![], acc: 0, n: 0 } }
        fn put(&mut self, v: u32, len: u32) { for i in 0..len { self.acc |= ((v >> i) & 1) << self.n; self.n += 1; if self.n == 8 { self.out.push(self.acc as u8); self.acc = 0; self.n = 0; } } }
        fn code(&mut self, c: u32, len: u32) { for i in (0..len).rev() { self.put((c >> i) & 1, 1); } }
        fn pending(&self) -> u32 { (8 - self.n) % 8 }
    }
    struct Rng(u64);
    impl Rng {
        fn next(&mut self) -> u32 { self.0 = self.0.wrapping_mul(6364136223846793005).wrapping_add(1442695040888963407); (self.0 >> 33) as u32 }
        fn below(&mut self, n: u32) -> u32 { self.next() % n }
    }
    const LB: [u32; 29] = [3, 4, 5, 6, 7, 8, 9, 10, 11, 13, 15, 17, 19, 23, 27, 31, 35, 43, 51, 59, 67, 83, 99, 115, 131, 163, 195, 227, 258];
    const LE: [u32; 29] = [0, 0, 0, 0, 0, 0, 0, 0, 1, 1, 1, 1, 2, 2, 2, 2, 3, 3, 3, 3, 4, 4, 4, 4, 5, 5, 5, 5, 0];
    const DB: [u32; 30] = [1, 2, 3, 4, 5, 7, 9, 13, 17, 25, 33, 49, 65, 97, 129, 193, 257, 385, 513, 769, 1025, 1537, 2049, 3073, 4097, 6145, 8193, 12289, 16385, 24577];
    const DE: [u32; 30] = [0, 0, 0, 0, 1, 1, 2, 2, 3, 3, 4, 4, 5, 5, 6, 6, 7, 7, 8, 8, 9, 9, 10, 10, 11, 11, 12, 12, 13, 13];

    /// RFC 1951 3.2.2 canonical codes (independent of the library)
    fn canon(lengths: &[u32]) -> Vec<u32> {
        let mut bl = [0u32; 16];
        for &l in lengths { bl[l as usize] += 1; }
        bl[0] = 0;
        let mut next = [0u32; 16];
        let mut c = 0;
        for b in 1..16 { c = (c + bl[b - 1]) << 1; next[b] = c; }
        lengths.iter().map(|&l| if l == 0 { 0 } else { let v = next[l as usize]; next[l as usize] += 1; v }).collect()
    }

    fn gen_stream(rng: &mut Rng) -> (Vec<u8>, Vec<u8>, String) {
        let mut b = Bits::new();
        let mut text: Vec<u8> = vec![];
        let mut desc = String::new();
        let nblocks = 1 + rng.below(3);
        for bi in 0..nblocks {
            let last = bi + 1 == nblocks;
            let kind = rng.below(3);
            b.put(last as u32, 1);
            if kind == 0 {
                b.put(0, 2);
                let p = b.pending();
                let pad = rng.next() & ((1 << p) - 1);
                b.put(pad, p);
                let len = if rng.below(4) == 0 { 0 } else { rng.below(60) };
                b.put(len, 16); b.put(!len & 0xffff, 16);
                for _ in 0..len { let c = (rng.below(4) + 97) as u8; b.put(c as u32, 8); text.push(c); }
                desc += &format!("[stored len={} pad={:#x}/{}]", len, pad, p);
                continue;
            }
            // code lengths: fixed code, or a complete 286/30 code announced in a dynamic header
            let (ll, dl): (Vec<u32>, Vec<u32>) = if kind == 1 {
                ((0..288).map(|i| if i < 144 { 8 } else if i < 256 { 9 } else if i < 280 { 7 } else { 8 }).collect(), vec![5; 32])
            } else {
                ((0..286).map(|i| if i < 144 { 8 } else if i < 256 { 9 } else if i < 280 { 7 } else if i < 284 { 8 } else { 7 }).collect(),
                 (0..30).map(|i| if i < 2 { 4 } else { 5 }).collect())
            };
            let (lc, dc) = (canon(&ll), canon(&dl));
            if kind == 1 { b.put(1, 2); desc += "[fixed"; } else {
                b.put(2, 2); desc += "[dynamic";
                b.put(286 - 257, 5); b.put(30 - 1, 5); b.put(19 - 4, 4);
                // code-length alphabet: 13 symbols of 4 bits, 6 of 5 bits (complete)
                let cl: Vec<u32> = (0..19).map(|s| if s < 13 { 4 } else { 5 }).collect();
                let cc = canon(&cl);
                for s in [16usize, 17, 18, 0, 8, 7, 9, 6, 10, 5, 11, 4, 12, 3, 13, 2, 14, 1, 15] { b.put(cl[s], 3); }
                let all: Vec<u32> = ll.iter().chain(dl.iter()).cloned().collect();
                let mut i = 0;
                while i < all.len() {
                    let v = all[i];
                    let mut run = 1; while i + run < all.len() && all[i + run] == v { run += 1; }
                    // random run-length choice: repeat the previous length 3..6 times, or spell the lengths out
                    if i > 0 && all[i - 1] == v && run >= 3 && rng.below(3) != 0 {
                        let r = 3 + rng.below(std::cmp::min(run as u32, 6) - 2);
                        b.code(cc[16], cl[16]); b.put(r - 3, 2); i += r as usize;
                    } else { b.code(cc[v as usize], cl[v as usize]); i += 1; }
                }
            }
            let ntok = rng.below(40);
            for _ in 0..ntok {
                let want_ref = !text.is_empty() && rng.below(3) == 0;
                if !want_ref {
                    let c = (rng.below(4) + 97) as usize; b.code(lc[c], ll[c]); text.push(c as u8);
                } else {
                    let len = match rng.below(6) { 0 => 258, 1 => 3, 2 => 257, _ => 3 + rng.below(256) };
                    let dist = match rng.below(4) { 0 => 1, 1 => text.len() as u32, _ => 1 + rng.below(text.len() as u32) };
                    let dist = std::cmp::min(dist, 32768);
                    if len == 258 && rng.below(2) == 0 {
                        b.code(lc[284], ll[284]); b.put(31, 5); desc += "i";
                    } else {
                        let mut q = 28; while LB[q] > len { q -= 1; }
                        b.code(lc[257 + q], ll[257 + q]); b.put(len - LB[q], LE[q]);
                    }
                    let mut d = 29; while DB[d] > dist { d -= 1; }
                    b.code(dc[d], dl[d]); b.put(dist - DB[d], DE[d]);
                    for _ in 0..len { let c = text[text.len() - dist as usize]; text.push(c); }
                }
            }
            b.code(lc[256], ll[256]);
            desc += &format!(" tokens={}]", ntok);
        }
        let p = b.pending();
        let pad = rng.next() & ((1 << p) - 1);
        b.put(pad, p);
        desc += &format!(" eofpad={:#x}/{}", pad, p);
        (b.out, text, desc)
    }

    fn hex(b: &[u8]) -> String { b.iter().map(|x| format!("{:02x}", x)).collect() }

    fn check_one(stream: &[u8], text: &[u8]) -> Option<String> {
        let contents = match parse_deflate(stream, 0) { Ok(c) => c, Err(e) => return Some(format!("well-formed stream rejected by parse_deflate: {}", e)) };
        if contents.plain_text != text { return Some(format!("C03: plaintext differs from the encoded plaintext (got {} bytes, expected {})", contents.plain_text.len(), text.len())); }
        if contents.compressed_size != stream.len() { return Some(format!("C03: compressed_size {} != stream length {}", contents.compressed_size, stream.len())); }
        let mut w = DeflateWriter::new();
        for (i, blk) in contents.blocks.iter().enumerate() {
            if let Err(e) = w.encode_block(blk, i + 1 == contents.blocks.len()) { return Some(format!("encode_block failed: {}", e)); }
        }
        w.flush_with_padding(contents.eof_padding);
        let out = w.detach_output();
        if out != stream { return Some(format!("C07: re-serialised stream differs: {}", hex(&out))); }
        None
    }

    #[test]
    fn verif_search() {
        let seed: u64 = std::env::var("VERIF_SEED").ok().and_then(|s| s.parse().ok()).unwrap_or(1);
        let mut rng = Rng(seed.wrapping_mul(0x9E3779B97F4A7C15) ^ 0xC07);
        let n = 6000;
        for k in 0..n {
            let (stream, text, desc) = gen_stream(&mut rng);
            let (s2, t2) = (stream.clone(), text.clone());
            let r = std::panic::catch_unwind(move || check_one(&s2, &t2));
            let msg = match r { Ok(None) => continue, Ok(Some(m)) => m, Err(_) => "panic".to_string() };
            println!("FAILING-INPUT property=c07 what={:?} stream={} blocks={} case={}", msg, hex(&stream), desc, k);
            panic!("c07: {}", msg);
        }
        println!("SEARCH-DONE property=c07 no failing input in {} generated streams", n);
    }
}
