// Replay searcher for C07 / C03 (appended to src/process.rs under #[cfg(test)]): generates well-formed DEFLATE streams
// from its own independent encoder (stored / fixed / dynamic blocks, random padding bits, both codings of length 258,
// random run-length choices in the dynamic header), then runs the property statement on the real code:
//   C07: parse_deflate -> DeflateWriter::encode_block per block -> flush_with_padding == the stream, whole stream consumed
//   C03: plain_text == the plaintext the generator encoded, compressed_size == stream length
#[cfg(test)]
mod verif_search {
    use super::*;

    struct Bits { out: Vec<u8>, acc: u32, n: u32 }
    impl Bits {
        fn new() -> Self { Bits { out: vec![], acc: 0, n: 0 } }
        fn put(&mut self, v: u32, len: u32) { for i in 0..len { self.acc |= ((v >> i) & 1) << self.n; self.n += 1; if self.n == 8 { self.out.push(self.acc as u8); self.acc = 0; self.n = 0; } } }
        fn code(&mut self, c: u32, len: u32) { for i in (0..len).rev() { self.put((c >> i) & 1, 1); } }
        fn pending(&self) -> u32 { (8 - self.n) % 8 }
    }
    struct Rng(u64);
    impl Rng {
        fn next(&mut self) -> u32 { self.0 = self.0.wrapping_mul(6364136223846793005).wrapping_add(1442695040888963407); (self.0 >> 33) as u32 }
        fn below(&mut self, n: u32) -> u32 { self.next() % n }
    }
    const LB: [u32; 29] = [3, 4, 5, 6, 7, 8, 9, 10, 11, 13, 15, 17, 19, 23, 27, 31, 35, 43, 51, 59, 67, 83, 99, 115, 131, 163, 195, 227, 258];
    const LE: [u32; 29] = [0, 0, 0, 0, 0, 0, 0, 0, 1, 1, 1, 1, 2, 2, 2, 2, 3, 3, 3, 3, 4, 4, 4, 4, 5, 5, 5, 5, 0];
    const DB: [u32; 30] = [1, 2, 3, 4, 5, 7, 9, 13, 17, 25, 33, 49, 65, 97, 129, 193, 257, 385, 513, 769, 1025, 1537, 2049, 3073, 4097, 6145, 8193, 12289, 16385, 24577];
    const DE: [u32; 30] = [0, 0, 0, 0, 1, 1, 2, 2, 3, 3, 4, 4, 5, 5, 6, 6, 7, 7, 8, 8, 9, 9, 10, 10, 11, 11, 12, 12, 13, 13];

    /// RFC 1951 3.2.2 canonical codes (independent of the library)
    fn canon(lengths: &[u32]) -> Vec<u32> {
        let mut bl = [0u32; 16];
        for &l in lengths { bl[l as usize] += 1; }
        bl[0] = 0;
        let mut next = [0u32; 16];
        let mut c = 0;
        for b in 1..16 { c = (c + bl[b - 1]) << 1; next[b] = c; }
        lengths.iter().map(|&l| if l == 0 { 0 } else { let v = next[l as usize]; next[l as usize] += 1; v }).collect()
    }

    /// n >= 2 code lengths <= maxlen of a complete prefix code (random splitting of leaves), in random order
    fn rand_lengths(rng: &mut Rng, n: usize, maxlen: u32) -> Vec<u32> {
        let mut leaves = vec![1u32, 1];
        while leaves.len() < n {
            let k = rng.below(leaves.len() as u32) as usize;
            if leaves[k] < maxlen { leaves[k] += 1; let d = leaves[k]; leaves.push(d); }
        }
        for k in (1..leaves.len()).rev() { let j = rng.below(k as u32 + 1) as usize; leaves.swap(k, j); }
        leaves
    }

    /// n code lengths of a complete prefix code, as skewed as maxlen allows, ascending (the last symbols get the longest codes)
    fn skewed_lengths(n: usize, maxlen: u32) -> Vec<u32> {
        let mut leaves = vec![1u32, 1];
        while leaves.len() < n {
            let mut k = 0; let mut best = 0;
            for (i, &d) in leaves.iter().enumerate() { if d < maxlen && d >= best { best = d; k = i; } }
            leaves[k] += 1; let d = leaves[k]; leaves.push(d);
        }
        leaves.sort();
        leaves
    }

    fn gen_stream(rng: &mut Rng, lenient: bool) -> (Vec<u8>, Vec<u8>, String) {
        let mut b = Bits::new();
        let mut text: Vec<u8> = vec![];
        let mut desc = String::new();
        let nblocks = 1 + rng.below(3);
        // now and then the stream starts with a 32 KiB stored block, so that the blocks after it can use the far distance
        // symbols (24..29, 11..13 extra bits) -- with skewed distance codes those get 13..15-bit codewords
        let far = rng.below(24) == 0;
        if far {
            b.put(0, 1); b.put(0, 2);
            let p = b.pending(); b.put(0, p);
            let len = 32768 + rng.below(1500);
            b.put(len, 16); b.put(!len & 0xffff, 16);
            for _ in 0..len { let c = (rng.next() & 0xff) as u8; b.put(c as u32, 8); text.push(c); }
            desc += &format!("[stored len={} far]", len);
        }
        for bi in 0..nblocks {
            let last = bi + 1 == nblocks;
            let kind = rng.below(3);
            b.put(last as u32, 1);
            if kind == 0 {
                b.put(0, 2);
                let p = b.pending();
                let pad = rng.next() & ((1 << p) - 1);
                b.put(pad, p);
                let len = match rng.below(8) { 0 => 0, 1 => 255, 2 => 256, _ => rng.below(60) };
                b.put(len, 16); b.put(!len & 0xffff, 16);
                // (now and then the first stored byte repeats the low byte of LEN: a reader that is off by one byte here
                // would still find a consistent LEN/NLEN pair)
                let echo = rng.below(2) == 0;
                for i in 0..len { let c = if i == 0 && echo { (len & 0xff) as u8 } else { (rng.below(4) + 97) as u8 }; b.put(c as u32, 8); text.push(c); }
                desc += &format!("[stored len={} pad={:#x}/{}]", len, pad, p);
                continue;
            }
            // code lengths: the fixed code, the same shape announced in a dynamic header, or (2 of 3 dynamic blocks) random
            // complete codes over a random symbol subset, announced with random run-length choices (16/17/18).
            // `lenient` (C03 only) adds headers that zlib's inflate accepts although they are not complete codes or use
            // symbol 16 right after a zero run: a lone 1-bit distance code, no distance code at all.
            let shape = if kind == 2 { rng.below(3) } else { 0 };
            let lone_dist: Option<usize> = if lenient && kind == 2 && shape != 0 && rng.below(3) == 0 { Some(rng.below(30) as usize) } else { None };
            let no_dist = lenient && kind == 2 && shape != 0 && lone_dist.is_none() && rng.below(4) == 0;
            let (ll, dl): (Vec<u32>, Vec<u32>) = if kind == 1 {
                ((0..288).map(|i| if i < 144 { 8 } else if i < 256 { 9 } else if i < 280 { 7 } else { 8 }).collect(), vec![5; 32])
            } else if shape == 0 {
                ((0..286).map(|i| if i < 144 { 8 } else if i < 256 { 9 } else if i < 280 { 7 } else if i < 284 { 8 } else { 7 }).collect(),
                 (0..30).map(|i| if i < 2 { 4 } else { 5 }).collect())
            } else {
                // literal/length code: the symbols the token generator may use, plus a random subset of the others
                let dense = rng.below(2) == 0;
                let used: Vec<usize> = (0..286).filter(|&i| (97..=100).contains(&i) || i >= 256 || (dense && rng.below(3) != 0) || (!dense && rng.below(40) == 0)).collect();
                let lens = rand_lengths(rng, used.len(), 15);
                let mut ll = vec![0u32; 286];
                for (k, &sy) in used.iter().enumerate() { ll[sy] = lens[k]; }
                let dl: Vec<u32> = if let Some(sy) = lone_dist { let mut d = vec![0u32; sy + 1]; d[sy] = 1; d }
                    else if no_dist { vec![0u32] }
                    else if far && rng.below(2) == 0 { skewed_lengths(30, 15) }
                    else {
                        let nd = 2 + rng.below(29) as usize; let mut d = rand_lengths(rng, nd, 15);
                        // now and then more distance codes are declared than used: trailing zero lengths
                        if rng.below(3) == 0 { let extra = rng.below((30 - nd) as u32 + 1) as usize; d.extend(std::iter::repeat(0).take(extra)); }
                        d
                    };
                (ll, dl)
            };
            let (lc, dc) = (canon(&ll), canon(&dl));
            if kind == 1 { b.put(1, 2); desc += "[fixed"; } else {
                b.put(2, 2); desc += &format!("[dynamic shape={} nd={}{}{}", shape, dl.len(), if lone_dist.is_some() { " lone-dist" } else { "" }, if no_dist { " no-dist" } else { "" });
                let all: Vec<u32> = ll.iter().chain(dl.iter()).cloned().collect();
                // run-length items (symbol, extra value, extra bits)
                let mut items: Vec<(usize, u32, u32)> = vec![];
                let mut i = 0;
                let mut prev_explicit = false;   // the previous item spelled a length out (symbol 0..15)
                while i < all.len() {
                    let v = all[i];
                    let mut run = 1; while i + run < all.len() && all[i + run] == v { run += 1; }
                    let choice = rng.below(3);
                    // symbol 16 right after a 17/18 run means "repeat 0" in RFC 1951; only the lenient family uses that
                    let may16 = i > 0 && all[i - 1] == v && run >= 3 && (v != 0 && true || prev_explicit || lenient);
                    if v == 0 && run >= 11 && choice != 0 && shape != 0 {
                        let r = 11 + rng.below(std::cmp::min(run as u32, 138) - 10); items.push((18, r - 11, 7)); i += r as usize; prev_explicit = false;
                    } else if v == 0 && run >= 3 && choice != 0 && shape != 0 {
                        let r = 3 + rng.below(std::cmp::min(run as u32, 10) - 2); items.push((17, r - 3, 3)); i += r as usize; prev_explicit = false;
                    } else if may16 && (choice != 0 || shape == 0 && rng.below(3) != 0) && (v != 0 || shape != 0) {
                        let r = 3 + rng.below(std::cmp::min(run as u32, 6) - 2); items.push((16, r - 3, 2)); i += r as usize;
                    } else { items.push((v as usize, 0, 0)); i += 1; prev_explicit = true; }
                }
                // code-length code: complete over the symbols the items use
                let mut cl = vec![0u32; 19];
                if shape == 0 { for s in 0..19 { cl[s] = if s < 13 { 4 } else { 5 }; } } else {
                    let mut usedc: Vec<usize> = (0..19).filter(|&s| items.iter().any(|it| it.0 == s)).collect();
                    if usedc.len() < 2 { let extra = (0..19).find(|s| !usedc.contains(s)).unwrap(); usedc.push(extra); }
                    let lens = rand_lengths(rng, usedc.len(), 7);
                    for (k, &sy) in usedc.iter().enumerate() { cl[sy] = lens[k]; }
                }
                let cc = canon(&cl);
                const ORDER: [usize; 19] = [16, 17, 18, 0, 8, 7, 9, 6, 10, 5, 11, 4, 12, 3, 13, 2, 14, 1, 15];
                let mut hclen = 19; while hclen > 4 && cl[ORDER[hclen - 1]] == 0 && shape != 0 && rng.below(4) != 0 { hclen -= 1; }
                b.put(ll.len() as u32 - 257, 5); b.put(dl.len() as u32 - 1, 5); b.put(hclen as u32 - 4, 4);
                for &s in ORDER.iter().take(hclen) { b.put(cl[s], 3); }
                for &(sy, ev, eb) in &items { b.code(cc[sy], cl[sy]); b.put(ev, eb); }
            }
            let max_dist: u32 = if no_dist { 0 } else { let top = dl.iter().take(30).rposition(|&l| l != 0).unwrap_or(0); std::cmp::min(32768, DB[top] + (1 << DE[top]) - 1) };
            let ntok = rng.below(40);
            for _ in 0..ntok {
                let lone_ok = match lone_dist { Some(sy) => DB[sy] as usize <= text.len(), None => true };
                let want_ref = !text.is_empty() && rng.below(3) == 0 && max_dist > 0 && lone_ok;
                if !want_ref {
                    let c = (rng.below(4) + 97) as usize; b.code(lc[c], ll[c]); text.push(c as u8);
                } else {
                    let len = match rng.below(6) { 0 => 258, 1 => 3, 2 => 257, _ => 3 + rng.below(256) };
                    let dist = match rng.below(4) { 0 => 1, 1 => text.len() as u32, _ => 1 + rng.below(text.len() as u32) };
                    let dist = std::cmp::min(dist, max_dist);
                    let dist = match lone_dist { Some(sy) => DB[sy] + rng.below(std::cmp::min(1 << DE[sy], text.len() as u32 - DB[sy] + 1)), None => dist };
                    if len == 258 && rng.below(2) == 0 {
                        b.code(lc[284], ll[284]); b.put(31, 5); desc += "i";
                    } else {
                        let mut q = 28; while LB[q] > len { q -= 1; }
                        b.code(lc[257 + q], ll[257 + q]); b.put(len - LB[q], LE[q]);
                    }
                    let mut d = 29; while DB[d] > dist { d -= 1; }
                    b.code(dc[d], dl[d]); b.put(dist - DB[d], DE[d]);
                    for _ in 0..len { let c = text[text.len() - dist as usize]; text.push(c); }
                }
            }
            b.code(lc[256], ll[256]);
            desc += &format!(" tokens={}]", ntok);
        }
        let p = b.pending();
        let pad = rng.next() & ((1 << p) - 1);
        b.put(pad, p);
        desc += &format!(" eofpad={:#x}/{}", pad, p);
        (b.out, text, desc)
    }

    fn hex(b: &[u8]) -> String { b.iter().map(|x| format!("{:02x}", x)).collect() }

    static REJECTED: std::sync::atomic::AtomicUsize = std::sync::atomic::AtomicUsize::new(0);
    fn check_one(stream: &[u8], text: &[u8], c03: bool) -> Option<String> {
        // C03 speaks about accepted streams only; for C07 a rejected well-formed stream is a failure to round-trip
        let contents = match parse_deflate(stream, 0) { Ok(c) => c, Err(e) => return if c03 { REJECTED.fetch_add(1, std::sync::atomic::Ordering::Relaxed); None } else { Some(format!("well-formed stream rejected by parse_deflate: {}", e)) } };
        if contents.plain_text != text { return Some(format!("C03: plaintext differs from the encoded plaintext (got {} bytes, expected {})", contents.plain_text.len(), text.len())); }
        if contents.compressed_size != stream.len() { return Some(format!("C03: compressed_size {} != stream length {}", contents.compressed_size, stream.len())); }
        if c03 { return None; }
        let mut w = DeflateWriter::new();
        for (i, blk) in contents.blocks.iter().enumerate() {
            if let Err(e) = w.encode_block(blk, i + 1 == contents.blocks.len()) { return Some(format!("encode_block failed: {}", e)); }
        }
        w.flush_with_padding(contents.eof_padding);
        let out = w.detach_output();
        if out != stream { return Some(format!("C07: re-serialised stream differs: {}", hex(&out))); }
        None
    }

    /// C02 on the real API: accept => recompress gives the consumed prefix; both verify settings agree; the bytes after
    /// the stream do not matter
    fn check_c02(stream: &[u8]) -> Option<String> {
        use crate::preflate_container::{decompress_deflate_stream, recompress_deflate_stream};
        let r0 = decompress_deflate_stream(stream, false, 0);
        let r1 = decompress_deflate_stream(stream, true, 0);
        match (&r0, &r1) {
            (Ok(a), Ok(b)) => {
                if a.plain_text != b.plain_text || a.prediction_corrections != b.prediction_corrections || a.compressed_size != b.compressed_size {
                    return Some("C02: verify=false and verify=true return different results".into());
                }
            }
            (Ok(_), Err(e)) => return Some(format!("C02: accepted with verify=false, rejected with verify=true: {}", e)),
            (Err(e), Ok(_)) => return Some(format!("C02: rejected with verify=false, accepted with verify=true: {}", e)),
            (Err(_), Err(_)) => return None,
        }
        let a = r0.unwrap();
        if a.compressed_size > stream.len() { return Some("C02: compressed_size beyond the input".into()); }
        match recompress_deflate_stream(&a.plain_text, &a.prediction_corrections) {
            Err(e) => return Some(format!("C02: accepted stream cannot be reconstructed: {}", e)),
            Ok(back) => if back[..] != stream[..a.compressed_size] { return Some(format!("C02: accepted stream was reconstructed differently: {}", hex(&back))); }
        }
        let mut longer = stream[..a.compressed_size].to_vec();
        longer.extend_from_slice(&[0x5a, 0xff, 0x00, 0x13, 0x37]);
        match decompress_deflate_stream(&longer, false, 0) {
            Err(e) => return Some(format!("C02: result depends on the bytes after the stream (Err with a suffix): {}", e)),
            Ok(c) => if c.plain_text != a.plain_text || c.prediction_corrections != a.prediction_corrections || c.compressed_size != a.compressed_size {
                return Some("C02: result depends on the bytes after the stream".into());
            }
        }
        None
    }

    /// C05 on the real API: arbitrary bytes end in Ok or Err (both verify settings), never in a panic; a single call that
    /// takes longer than 20 s is reported as a suspected hang
    fn check_c05(d: &[u8]) -> Option<String> {
        use crate::preflate_container::decompress_deflate_stream;
        for verify in [false, true] {
            let dd = d.to_vec();
            let t0 = std::time::Instant::now();
            let r = std::panic::catch_unwind(move || decompress_deflate_stream(&dd, verify, 0).is_ok());
            if r.is_err() { return Some(format!("C05: decompress_deflate_stream panicked (verify={})", verify)); }
            if t0.elapsed().as_secs() > 20 { return Some(format!("C05: one call took {} s (verify={})", t0.elapsed().as_secs(), verify)); }
        }
        None
    }
    fn search_c05(seed: u64) {
        let mut rng = Rng(seed.wrapping_mul(0x9E3779B97F4A7C15) ^ 0xC05);
        let mut n = 0u64;
        let mut fail = |d: &[u8], msg: String| -> ! { println!("FAILING-INPUT property=c05 what={:?} stream={}", msg, hex(d)); panic!("search: {}", msg); };
        // every input of at most two bytes; every three-byte input behind the block headers that reach the decoders
        for a in 0..=255u32 { let d = [a as u8]; n += 1; if let Some(m) = check_c05(&d) { fail(&d, m); } }
        for a in 0..=255u32 { for b in 0..=255u32 { let d = [a as u8, b as u8]; n += 1; if let Some(m) = check_c05(&d) { fail(&d, m); } } }
        // (thorough tier: every three-byte input)
        let thorough = std::env::var("VERIF_TIER").map(|v| v == "thorough").unwrap_or(false);
        let firsts: Vec<u32> = if thorough { (0..=255u32).collect() } else { vec![0x4bu32, 0x4a, 0x03, 0x02, 0x05, 0x04, 0x01, 0x00, 0xed, 0xec] };
        for a in firsts { for b in 0..=255u32 { for c in 0..=255u32 {
            let d = [a as u8, b as u8, c as u8]; n += 1; if let Some(m) = check_c05(&d) { fail(&d, m); } } } }
        if let Some(m) = check_c05(&[]) { fail(&[], m); }
        // well-formed streams: every truncation, single-byte corruptions, noise tails
        for _ in 0..400 {
            let (stream, _text, _desc) = gen_stream(&mut rng, false);
            for cut in 0..stream.len() { n += 1; if let Some(m) = check_c05(&stream[..cut]) { fail(&stream[..cut], m); } }
            for _ in 0..24 {
                let mut d = stream.clone();
                let i = rng.below(d.len() as u32) as usize;
                d[i] ^= 1 << rng.below(8);
                if rng.below(3) == 0 { let j = rng.below(d.len() as u32) as usize; d[j] = rng.next() as u8; }
                n += 1; if let Some(m) = check_c05(&d) { fail(&d, m); }
            }
        }
        for len in 0..96u32 { for _ in 0..40 { let d: Vec<u8> = (0..len).map(|_| rng.next() as u8).collect(); n += 1; if let Some(m) = check_c05(&d) { fail(&d, m); } } }
        // deep hash chains: long runs / short periods, then a match far back (the estimators give up on candidates
        // whose chains get too deep; every way of giving up must be an Err)
        let fixed_lit = |b: &mut Bits, c: u32| { if c < 144 { b.code(0x30 + c, 8) } else { b.code(0x190 + (c - 144), 9) } };
        for &run in &[4200u32, 8300, 9000, 20000, 33100] {
            for &period in &[1u32, 2, 3, 7] {
                for &(len, back) in &[(3u32, 500u32), (4, 500), (258, 500), (3, 0), (4, 4097), (3, 8197), (258, 32768)] {
                    let dist = if back == 0 { run } else if back <= 500 { run - back } else { back };
                    if dist == 0 || dist > run || dist > 32768 { continue; }
                    let mut b = Bits::new();
                    b.put(1, 1); b.put(1, 2);
                    for i in 0..run { fixed_lit(&mut b, 97 + (i % period)); }
                    let mut q = 28; while LB[q] > len { q -= 1; }
                    let sym = 257 + q as u32;
                    if sym < 280 { b.code(sym - 256, 7) } else { b.code(0xC0 + (sym - 280), 8) }
                    b.put(len - LB[q], LE[q]);
                    let mut dcode = 29; while DB[dcode] > dist { dcode -= 1; }
                    b.code(dcode as u32, 5); b.put(dist - DB[dcode], DE[dcode]);
                    for c in [120u32, 121, 122] { fixed_lit(&mut b, c); }
                    b.code(0, 7);
                    let p = b.pending(); b.put(0, p);
                    n += 1; if let Some(m) = check_c05(&b.out) { fail(&b.out, m); }
                }
            }
        }
        // position bookkeeping of the hash chains (16-bit internal positions, re-based every 0x7e00 bytes): long runs
        // whose token boundaries sweep every alignment around the first and the second re-basing point, ending in a
        // short far match plus literals so that the lazy probe one byte ahead runs right at the boundary
        let fixed_ref = |b: &mut Bits, len: u32, dist: u32| {
            let mut q = 28; while LB[q] > len { q -= 1; }
            let sym = 257 + q as u32;
            if sym < 280 { b.code(sym - 256, 7) } else { b.code(0xC0 + (sym - 280), 8) }
            b.put(len - LB[q], LE[q]);
            let mut dcode = 29; while DB[dcode] > dist { dcode -= 1; }
            b.code(dcode as u32, 5); b.put(dist - DB[dcode], DE[dcode]);
        };
        for &target in &[65527u32, 65527 + 0x7e00] {
            for al in 0..300u32 {
                let mut b = Bits::new();
                b.put(1, 1); b.put(1, 2);
                let mut pos = 0u32;
                fixed_lit(&mut b, 0); pos += 1;
                fixed_ref(&mut b, 258, 1); pos += 258;
                fixed_ref(&mut b, 258, 2); pos += 258;
                fixed_ref(&mut b, 258, 20); pos += 258;
                for _ in 0..al { fixed_lit(&mut b, 0); pos += 1; }
                while pos + 258 + 30000 < target { fixed_ref(&mut b, 258, 1); pos += 258; }
                let marker = pos;
                for c in [97u32, 98, 99, 100, 88] { fixed_lit(&mut b, c); pos += 1; }
                fixed_lit(&mut b, 0); pos += 1;
                while pos + 258 <= target { fixed_ref(&mut b, 258, 1); pos += 258; }
                let dist = pos - marker;
                if dist <= 32768 { fixed_ref(&mut b, 4, dist); }
                for c in [81u32, 82, 83, 84, 85, 86, 87, 89] { fixed_lit(&mut b, c); }
                b.code(0, 7);
                let p = b.pending(); b.put(0, p);
                n += 1; if let Some(m) = check_c05(&b.out) { fail(&b.out, m); }
            }
        }
        // every sequence of one to three tiny blocks (empty / short stored, empty / one-literal / one-match fixed blocks):
        // streams whose blocks carry no tokens or no references at all are where the estimators' corner cases are
        for nb in 1..=3usize {
            let kinds = 6usize;
            for code in 0..kinds.pow(nb as u32) {
                let mut b = Bits::new();
                let mut c = code; let mut produced = 0usize;
                for bi in 0..nb {
                    let k = c % kinds; c /= kinds;
                    let last = bi + 1 == nb;
                    b.put(last as u32, 1);
                    match k {
                        0 | 1 => { b.put(0, 2); let p = b.pending(); b.put(0, p); let len = if k == 0 { 0 } else { 3 }; b.put(len, 16); b.put(!len & 0xffff, 16); for i in 0..len { b.put(97 + i, 8); produced += 1; } }
                        2 => { b.put(1, 2); b.code(0, 7); }
                        3 => { b.put(1, 2); fixed_lit(&mut b, 97); produced += 1; b.code(0, 7); }
                        4 => { b.put(1, 2); fixed_lit(&mut b, 97); fixed_lit(&mut b, 98); produced += 2; b.code(0, 7); }
                        _ => { b.put(1, 2); if produced == 0 { fixed_lit(&mut b, 97); produced += 1; } b.code(1, 7); b.code(0, 5); produced += 3; b.code(0, 7); }   // match len 3 dist 1
                    }
                }
                let p = b.pending(); b.put(0, p);
                n += 1; if let Some(m) = check_c05(&b.out) { fail(&b.out, m); }
            }
        }
        // dynamic headers out of the ordinary: more distance codes declared than used (trailing zero lengths)
        for _ in 0..600 {
            let (stream, _text, _desc) = gen_stream(&mut rng, false);
            n += 1; if let Some(m) = check_c05(&stream) { fail(&stream, m); }
        }
        println!("SEARCH-DONE property=c05 no failing input in {} inputs", n);
    }

    /// C08 (prediction under arbitrary parameters, BOUNDED): produce corrections under a forced parameter vector; either
    /// Err, or the parameters read back are the ones written and the original stream is reconstructed
    fn check_c08(stream: &[u8], p: &crate::preflate_parameter_estimator::PreflateParameters) -> Option<String> {
        use crate::cabac_codec::{PredictionDecoderCabac, PredictionEncoderCabac};
        use crate::preflate_parameter_estimator::PreflateParameters;
        use cabac::vp8::{VP8Reader, VP8Writer};
        let contents = match parse_deflate(stream, 0) { Ok(c) => c, Err(_) => return None };
        let mut buf = Vec::new();
        let mut enc = PredictionEncoderCabac::new(VP8Writer::new(&mut buf).unwrap());
        p.write(&mut enc);
        if encode_mispredictions(&contents, p, &mut enc).is_err() { return None; }
        enc.finish();
        let mut dec = PredictionDecoderCabac::new(VP8Reader::new(std::io::Cursor::new(&buf[..])).unwrap());
        let q = match PreflateParameters::read(&mut dec) { Ok(q) => q, Err(e) => return Some(format!("C08: parameters cannot be read back: {}", e)) };
        if &q != p { return Some(format!("C08: parameters read back differ: {:?}", q)); }
        match decode_mispredictions(&q, PreflateInput::new(&contents.plain_text), &mut dec) {
            Err(e) => Some(format!("C08: corrections produced under {:?} cannot be decoded: {}", p, e)),
            Ok((back, _)) => if back[..] != stream[..contents.compressed_size] { Some(format!("C08: reconstruction under {:?} differs", p)) } else { None },
        }
    }
    fn search_c08(seed: u64) {
        use crate::add_policy_estimator::DictionaryAddPolicy;
        use crate::hash_algorithm::HashAlgorithm;
        use crate::preflate_parameter_estimator::{PreflateHuffStrategy, PreflateParameters, PreflateStrategy};
        use crate::preflate_parse_config::MatchingType;
        use crate::token_predictor::TokenPredictorParameters;
        let mut rng = Rng(seed.wrapping_mul(0x9E3779B97F4A7C15) ^ 0xC08);
        let hashes = [HashAlgorithm::None, HashAlgorithm::Zlib { hash_mask: 0x7fff, hash_shift: 5 }, HashAlgorithm::Zlib { hash_mask: 0x1ff, hash_shift: 3 },
            HashAlgorithm::MiniZFast, HashAlgorithm::Libdeflate4, HashAlgorithm::Libdeflate4Fast, HashAlgorithm::ZlibNG, HashAlgorithm::RandomVector, HashAlgorithm::Crc32cHash];
        let policies = [DictionaryAddPolicy::AddAll, DictionaryAddPolicy::AddFirst(0), DictionaryAddPolicy::AddFirst(4), DictionaryAddPolicy::AddFirst(255),
            DictionaryAddPolicy::AddFirstAndLast(1), DictionaryAddPolicy::AddFirstAndLast(32), DictionaryAddPolicy::AddFirstExcept4kBoundary, DictionaryAddPolicy::AddFirstWith32KBoundary];
        let matchings = [MatchingType::Greedy, MatchingType::Lazy { good_length: 4, max_lazy: 4 }, MatchingType::Lazy { good_length: 32, max_lazy: 258 }, MatchingType::Lazy { good_length: 8, max_lazy: 16 }];
        let mut streams: Vec<Vec<u8>> = Vec::new();
        for _ in 0..40 { streams.push(gen_stream(&mut rng, false).0); }
        for f in ["compressed_zlib_level1.deflate", "compressed_zlib_level9.deflate", "compressed_libdeflate_level6.deflate"] {
            let mut d = read_file(f); d.truncate(d.len()); streams.push(d);
        }
        let mut n = 0;
        let mut skipped = 0;
        for (si, stream) in streams.iter().enumerate() {
            let big = stream.len() > 10000;
            let rounds = if big { 10 } else { 36 };
            for k in 0..rounds {
                let p = PreflateParameters {
                    huff_strategy: [PreflateHuffStrategy::Dynamic, PreflateHuffStrategy::Mixed, PreflateHuffStrategy::Static][(k + si) % 3],
                    predictor: TokenPredictorParameters {
                        matches_to_start_detected: rng.below(2) == 0, very_far_matches_detected: rng.below(2) == 0,
                        window_bits: [9u32, 12, 15][rng.below(3) as usize],
                        strategy: [PreflateStrategy::Default, PreflateStrategy::Default, PreflateStrategy::RleOnly, PreflateStrategy::HuffOnly, PreflateStrategy::Store][rng.below(5) as usize],
                        nice_length: [3u32, 8, 32, 128, 258][rng.below(5) as usize],
                        add_policy: policies[rng.below(policies.len() as u32) as usize],
                        max_token_count: [1u16, 7, 16383, 16385, 32767, 65535][rng.below(6) as usize],
                        zlib_compatible: rng.below(2) == 0,
                        max_dist_3_matches: [0u16, 4096, 32768, 65535][rng.below(4) as usize],
                        matching_type: matchings[rng.below(matchings.len() as u32) as usize],
                        max_chain: [1u32, 4, 32, 256, 4096][rng.below(5) as usize],
                        min_len: [0u32, 3, 4][rng.below(3) as usize],
                        hash_algorithm: hashes[(k + si) % hashes.len()],
                    },
                };
                // the range of the estimator (proved: U19 over U23, spec/hops.rs pp_ok): a positive chain budget that
                // stays positive when zlib quarters it for "good" matches; no far matches without a dictionary
                let t = &p.predictor;
                let no_dict = matches!(t.strategy, PreflateStrategy::Store | PreflateStrategy::HuffOnly);
                let lazy_ok = match t.matching_type { MatchingType::Lazy { good_length, max_lazy } => good_length >= max_lazy || t.max_chain >= 4, MatchingType::Greedy => true };
                if (no_dict && t.very_far_matches_detected) || (!no_dict && t.zlib_compatible && !lazy_ok) { skipped += 1; continue; }
                n += 1;
                let (s2, p2) = (stream.clone(), p);
                match std::panic::catch_unwind(move || check_c08(&s2, &p2)) {
                    Ok(None) => {}
                    Ok(Some(m)) => { println!("FAILING-INPUT property=c08 what={:?} stream_len={} stream={}", m, stream.len(), hex(&stream[..stream.len().min(600)])); panic!("search: {}", m); }
                    Err(_) => { println!("FAILING-INPUT property=c08 what=\"panic under {:?}\" stream_len={} stream={}", p, stream.len(), hex(&stream[..stream.len().min(600)])); panic!("search: panic"); }
                }
            }
        }
        println!("SEARCH-DONE property=c08 no failing input in {} (stream, parameter vector) pairs ({} vectors outside the estimator's range skipped)", n, skipped);
    }


    /// C03 with zlib's own inflate (raw mode, 32 KiB window) as the oracle: the one assumption the proof of C03 leaves
    /// (zlib == the RFC transcription) is exercised here. Only compiled for the thorough tier (needs the libz-sys
    /// dev-dependency): RUSTFLAGS --cfg verif_zlib.
    #[cfg(verif_zlib)]
    extern "C" fn z_alloc(_: *mut std::ffi::c_void, items: u32, size: u32) -> *mut std::ffi::c_void {
        unsafe {
            let n = items as usize * size as usize + 16;
            let p = std::alloc::alloc_zeroed(std::alloc::Layout::from_size_align(n, 16).unwrap());
            if p.is_null() { return std::ptr::null_mut(); }
            *(p as *mut usize) = n;
            p.add(16) as *mut std::ffi::c_void
        }
    }
    #[cfg(verif_zlib)]
    extern "C" fn z_free(_: *mut std::ffi::c_void, p: *mut std::ffi::c_void) {
        unsafe {
            if p.is_null() { return; }
            let base = (p as *mut u8).sub(16);
            let n = *(base as *mut usize);
            std::alloc::dealloc(base, std::alloc::Layout::from_size_align(n, 16).unwrap());
        }
    }
    #[cfg(verif_zlib)]
    fn zlib_inflate_raw(data: &[u8]) -> Option<(Vec<u8>, usize)> {
        use libz_sys::*;
        use std::{mem, ptr};
        unsafe {
            let mut strm = z_stream {
                next_in: data.as_ptr() as *mut _, avail_in: data.len() as u32, next_out: ptr::null_mut(), avail_out: 0,
                total_in: 0, total_out: 0, msg: ptr::null_mut(), state: ptr::null_mut(),
                zalloc: z_alloc, zfree: z_free, opaque: ptr::null_mut(),
                data_type: 0, adler: 0, reserved: 0,
            };
            let rc = inflateInit2_(&mut strm, -15, zlibVersion(), mem::size_of::<z_stream>() as i32);
            assert_eq!(rc, Z_OK);
            let mut out = vec![0u8; 4 << 20];
            strm.next_out = out.as_mut_ptr(); strm.avail_out = out.len() as u32;
            let rc = inflate(&mut strm, Z_FINISH);
            let (total_in, total_out) = (strm.total_in as usize, strm.total_out as usize);
            inflateEnd(&mut strm);
            if rc != Z_STREAM_END { return None; }
            out.truncate(total_out);
            Some((out, total_in))
        }
    }
    #[cfg(verif_zlib)]
    fn search_c03z(seed: u64) {
        let mut rng = Rng(seed.wrapping_mul(0x9E3779B97F4A7C15) ^ 0xC03);
        let (mut n, mut both, mut gen_checked) = (0u64, 0u64, 0u64);
        let fail = |d: &[u8], msg: String| -> ! { println!("FAILING-INPUT property=c03 what={:?} stream={}", msg, hex(&d[..d.len().min(4000)])); panic!("search: {}", msg); };
        let mut check = |d: &[u8], expect: Option<&[u8]>, n: &mut u64, both: &mut u64| {
            *n += 1;
            let z = zlib_inflate_raw(d);
            if let (Some(t), Some((zo, zc))) = (expect, z.as_ref()) {
                // the generator's own expectation against zlib: a disagreement here is a defect of the generator / of the
                // RFC reading it encodes, reported as such
                if zo.as_slice() != t || *zc != d.len() { println!("GENERATOR-MISMATCH zlib gives {} bytes / consumes {} of {}, generator expected {} bytes", zo.len(), zc, d.len(), t.len()); panic!("generator mismatch"); }
            }
            let d2 = d.to_vec();
            let lib = std::panic::catch_unwind(move || parse_deflate(&d2, 0));
            let lib = match lib { Ok(r) => r, Err(_) => fail(d, "parse_deflate panicked".into()) };
            if let (Ok(c), Some((zo, zc))) = (lib, z) {
                *both += 1;
                if c.plain_text != zo { fail(d, format!("plain_text ({} bytes) differs from zlib's output ({} bytes)", c.plain_text.len(), zo.len())); }
                if c.compressed_size != zc { fail(d, format!("compressed_size {} but zlib consumed {}", c.compressed_size, zc)); }
            }
        };
        for k in 0..3000 {
            let lenient = k % 2 == 1;
            let (stream, text, _desc) = gen_stream(&mut rng, lenient);
            // (the zlib-lenient family includes headers zlib rejects on purpose? no: every generated stream is valid DEFLATE)
            check(&stream, Some(&text), &mut n, &mut both); gen_checked += 1;
            // trailing bytes after the stream; single-bit mutations that may keep the stream valid for both decoders
            let mut t = stream.clone(); t.extend_from_slice(&[0xAA, 0x55, 0x00]); check(&t, None, &mut n, &mut both);
            for _ in 0..6 {
                let mut m = stream.clone();
                let i = rng.below(m.len() as u32) as usize; m[i] ^= 1 << rng.below(8);
                check(&m, None, &mut n, &mut both);
            }
        }
        println!("SEARCH-DONE property=c03 no failing input in {} streams against zlib's inflate ({} accepted by both decoders, {} generator expectations confirmed by zlib)", n, both, gen_checked);
    }

    #[test]
    fn verif_search() {
        #[cfg(verif_zlib)]
        if std::env::var("VERIF_SEARCH").map(|v| v == "c03z").unwrap_or(false) {
            let seed: u64 = std::env::var("VERIF_SEED").ok().and_then(|s| s.parse().ok()).unwrap_or(1);
            return search_c03z(seed);
        }
        if std::env::var("VERIF_SEARCH").map(|v| v == "c08p").unwrap_or(false) {
            let seed: u64 = std::env::var("VERIF_SEED").ok().and_then(|s| s.parse().ok()).unwrap_or(1);
            return search_c08(seed);
        }
        if std::env::var("VERIF_SEARCH").map(|v| v == "c05").unwrap_or(false) {
            let seed: u64 = std::env::var("VERIF_SEED").ok().and_then(|s| s.parse().ok()).unwrap_or(1);
            return search_c05(seed);
        }
        let c02 = std::env::var("VERIF_SEARCH").map(|v| v == "c02").unwrap_or(false);
        let c03 = std::env::var("VERIF_SEARCH").map(|v| v == "c03").unwrap_or(false);
        let seed: u64 = std::env::var("VERIF_SEED").ok().and_then(|s| s.parse().ok()).unwrap_or(1);
        let mut rng = Rng(seed.wrapping_mul(0x9E3779B97F4A7C15) ^ 0xC07);
        if c02 {
            for f in ["compressed_zlib_level1.deflate", "compressed_zlib_level6.deflate", "compressed_flate2_level9.deflate", "compressed_libdeflate_level1.deflate", "compressed_libdeflate_level9.deflate", "compressed_minizoxide_level1.deflate", "compressed_zlib_level0.deflate"] {
                let d = read_file(f);
                if let Some(m) = check_c02(&d) { println!("FAILING-INPUT property=c02 what={:?} stream=samples/{}", m, f); panic!("search: {}", m); }
            }
        }
        let n = if c02 { 2500 } else { 6000 };
        for k in 0..n {
            let (stream, text, desc) = gen_stream(&mut rng, c03 && k % 2 == 1);
            let (s2, t2) = (stream.clone(), text.clone());
            let r = std::panic::catch_unwind(move || if c02 { check_c02(&s2) } else { check_one(&s2, &t2, c03) });
            let msg = match r { Ok(None) => continue, Ok(Some(m)) => m, Err(_) => "panic".to_string() };
            println!("FAILING-INPUT property={} what={:?} stream={} blocks={} case={}", if c02 { "c02" } else if c03 { "c03" } else { "c07" }, msg, hex(&stream), desc, k);
            panic!("search: {}", msg);
        }
        println!("SEARCH-DONE property={} no failing input in {} generated streams ({} rejected by the library: C03 is about accepted streams only)", if c02 { "c02" } else if c03 { "c03" } else { "c07" }, n, REJECTED.load(std::sync::atomic::Ordering::Relaxed));
    }
}
